"""Ideal-shape geometry shared by the C10 / C11 generators (exact or high-precision Python, independent of kurbo)."""
from .common import *
from . import oracle as O
from fractions import Fraction as Fr


def parse_els(s):
    toks = s.split()
    out = []
    i = 0
    n = {'M': 2, 'L': 2, 'Q': 4, 'C': 6, 'Z': 0}
    while i < len(toks):
        k = toks[i]
        if k not in n:
            return None
        vals = [h2f(x) for x in toks[i + 1:i + 1 + n[k]]]
        out.append((k,) + tuple((vals[j], vals[j + 1]) for j in range(0, len(vals), 2)))
        i += 1 + n[k]
    return out


def shape_line(kind, params):
    return f'{kind} {H(*params)}'


class Frame:
    """an ellipse as the image of the unit circle under  p -> c + R(rot) diag(rx, ry) p ; maps points back exactly (the
    float sin/cos of `rot` are taken as exact rationals: the induced error is ~1e-16 relative)"""

    def __init__(self, cx, cy, rx, ry, rot=0.0):
        self.c = (Fr(cx), Fr(cy))
        self.rx, self.ry = Fr(abs(rx)), Fr(abs(ry))
        self.s, self.co = Fr(math.sin(rot)), Fr(math.cos(rot))
        n2 = self.s * self.s + self.co * self.co
        # renormalise to an exact rotation up to 1e-32
        self.n2 = n2
        self.rmin, self.rmax = min(abs(rx), abs(ry)), max(abs(rx), abs(ry))

    def unit_polys(self, pts):
        """control points -> (u(t), v(t)) polynomials in the unit-circle frame"""
        px, py = O.seg_polys(pts)
        x = O.padd(px, [-self.c[0]])
        y = O.padd(py, [-self.c[1]])
        # rotate by -rot
        xr = O.padd(O.pscale(x, self.co), O.pscale(y, self.s))
        yr = O.padd(O.pscale(x, -self.s), O.pscale(y, self.co))
        return O.pscale(xr, 1 / (self.rx * self.n2)), O.pscale(yr, 1 / (self.ry * self.n2))

    def unit_pt(self, p):
        x, y = Fr(p[0]) - self.c[0], Fr(p[1]) - self.c[1]
        xr = (x * self.co + y * self.s) / self.n2
        yr = (-x * self.s + y * self.co) / self.n2
        return xr / self.rx, yr / self.ry


def piece_radial(frame, pts, T):
    """decide whether the Bezier piece stays within T of the ellipse: 'ok' | 'inconclusive' | ('bad', t)"""
    if frame.rmin <= 0:
        return 'inconclusive'
    u, v = frame.unit_polys(pts)
    g = O.padd(O.pmul(u, u), O.pmul(v, v))
    tau_ok = Fr(T) / Fr(frame.rmax)
    tau_bad = Fr(T) * Fr(1000001, 1000000) / Fr(frame.rmin) + Fr(1, 10 ** 9)
    # violation: somewhere rho > 1 + tau_bad or rho < 1 - tau_bad
    res, w = O.certify_nonpos(O.padd(g, [-(1 + tau_bad) ** 2]))
    if res == 'no':
        return ('bad', float(w), 'outside')
    if tau_bad < 1:
        res, w = O.certify_nonpos(O.padd(O.pscale(g, -1), [(1 - tau_bad) ** 2]))
        if res == 'no':
            return ('bad', float(w), 'inside')
    # certified ok?
    r1, _ = O.certify_nonpos(O.padd(g, [-(1 + tau_ok) ** 2]))
    r2 = 'yes'
    if tau_ok < 1:
        r2, _ = O.certify_nonpos(O.padd(O.pscale(g, -1), [(1 - tau_ok) ** 2]))
    return 'ok' if r1 == 'yes' and r2 == 'yes' else 'inconclusive'


def angle_of(frame, p):
    u, v = frame.unit_pt(p)
    return math.atan2(float(v), float(u))


def swept_angle(frame, pieces):
    """sum of the angular steps of the piece end points (each step taken in (-pi, pi])"""
    tot = 0.0
    for pts in pieces:
        a0, a1 = angle_of(frame, pts[0]), angle_of(frame, pts[-1])
        d = a1 - a0
        # use the direction of the first control arm to resolve the step
        am = angle_of(frame, ((pts[0][0] + pts[1][0]) / 2 if pts[1] != pts[0] else pts[0][0], (pts[0][1] + pts[1][1]) / 2 if pts[1] != pts[0] else pts[0][1]))
        while d <= -math.pi:
            d += 2 * math.pi
        while d > math.pi:
            d -= 2 * math.pi
        dm = am - a0
        while dm <= -math.pi:
            dm += 2 * math.pi
        while dm > math.pi:
            dm -= 2 * math.pi
        if d != 0 and dm != 0 and (d > 0) != (dm > 0) and abs(abs(d) - math.pi) < 1e-6:
            d = -d
        tot += d
    return tot


# ------------------------------------------------------------ ideal membership (signed distance > 0 inside), all floats


def circle_sd(c, r, p):
    return abs(r) - math.hypot(p[0] - c[0], p[1] - c[1])


def ellipse_level(frame, p):
    u, v = frame.unit_pt(p)
    return 1.0 - math.sqrt(float(u * u + v * v))    # > 0 inside, in units of the unit frame


def rrect_sd(rect, radii, p):
    """rect normalised (x0<=x1,y0<=y1), radii (tl,tr,br,bl) clamped & non-negative; signed distance, > 0 inside"""
    x0, y0, x1, y1 = rect
    cx, cy = (x0 + x1) / 2, (y0 + y1) / 2
    px, py = p[0] - cx, p[1] - cy
    tl, tr, br, bl = radii
    r = tl if (px < 0 and py < 0) else tr if (px >= 0 and py < 0) else br if (px >= 0 and py >= 0) else bl
    hw, hh = (x1 - x0) / 2, (y1 - y0) / 2
    qx, qy = abs(px) - (hw - r), abs(py) - (hh - r)
    outside = math.hypot(max(qx, 0.0), max(qy, 0.0))
    inside = min(max(qx, qy), 0.0)
    return r - (outside + inside)


def tri_sd(a, b, c, p):
    """signed distance to the triangle boundary (> 0 inside), orientation-free"""
    def seg_d(u, v):
        return math.sqrt(float(O.dist2_point_seg_exact(p, u, v)))
    d = min(seg_d(a, b), seg_d(b, c), seg_d(c, a))
    s = [(b[0] - a[0]) * (p[1] - a[1]) - (b[1] - a[1]) * (p[0] - a[0]),
         (c[0] - b[0]) * (p[1] - b[1]) - (c[1] - b[1]) * (p[0] - b[0]),
         (a[0] - c[0]) * (p[1] - c[1]) - (a[1] - c[1]) * (p[0] - c[0])]
    inside = all(x > 0 for x in s) or all(x < 0 for x in s)
    return d if inside else -d


def cseg_inside(c, outer, inner, start, sweep, p, margin):
    """ideal annular sector membership with a margin: returns True/False/None (None = within margin of the boundary)"""
    dx, dy = p[0] - c[0], p[1] - c[1]
    d = math.hypot(dx, dy)
    lo, hi = min(inner, outer), max(inner, outer)
    if d < margin:
        return None
    ang = math.atan2(dy, dx)
    rel = (ang - start) * (1 if sweep >= 0 else -1)
    rel = rel % (2 * math.pi)
    sw = abs(sweep)
    am = margin / d   # angular margin
    if abs(d - lo) < margin or abs(d - hi) < margin:
        return None
    if sw < 2 * math.pi:
        if min(abs(rel), abs(rel - sw), abs(rel - 2 * math.pi)) < am:
            return None
    return (lo < d < hi) and (rel < sw)
