"""C15 – polynomial solvers return exactly the real roots."""
from .common import *
from . import oracle as O
from fractions import Fraction as Fr

RULE = ('quadratics/cubics/quartics built from prescribed real roots and complex pairs (relative separation >= 1e-3, magnitudes within '
        '1e6 of each other, overall scales 1e-6..1e6), integer coefficients |c|<=1000, leading coefficients 1, 1e-4, 1e-8, 1e-16, 1e-300, 0; '
        'implementation compared (a) with the Float instantiation of the Lean model (quadratic/cubic/reductions: counts exact, values to 64 ulps; the whole quartic '
        'solver `solve.quartic_full` and `factor_quartic_inner` on general quartics incl. magnitudes that trigger the K_Q/K_C rescaling: bit-for-bit) and (b) with an exact '
        'oracle on the very double coefficients: Sturm isolation of the real roots over Q - every returned value must have a backward-stable '
        'residual, at most `degree` values, every separated real root returned exactly once; ITP: result within epsilon of the sign change '
        'of a monotone cubic. non-trivial = distinct coefficient tuple')
KERNEL_DEPS = []
UNPROVED = ['the general quartic path (LDL^T factorisation, rescaling constants K_Q, K_C, Newton polishing) IS transcribed (Kurbo/Quartic.lean) and compared '
            'bit-for-bit with the crate; its theorems (Proofs/C15Q.lean) are in exact arithmetic and assume an exact resolvent root: the accuracy of the '
            'float path is decided by the exact oracle only', 'all float-level claims (overflow guards, negligible leading coefficient)']
ASSUMPTIONS = ['real cube root / sqrt / atan2 / sin / cos laws for the cubic theorems (over the reals)']
MAKERS = {}
HEAVY_JUDGE = True
EPS = 2.220446049250313e-16


def exact_poly(coefs):
    return [Fr(c) for c in coefs]


def residual_ok(coefs, x, C=4096.0):
    """|p(x)| <= C * eps * sum |c_k| |x|^k, evaluated exactly"""
    if math.isnan(x) or math.isinf(x):
        return False
    p = exact_poly(coefs)
    xr = Fr(x)
    val = abs(O.peval(p, xr))
    bound = sum(abs(c) * abs(xr) ** k for k, c in enumerate(p))
    return val <= Fr(C * EPS) * bound


def true_roots(coefs):
    p = O.ptrim(exact_poly(coefs))
    if len(p) <= 1:
        return []
    return [((lo + hi) / 2) for lo, hi in O.isolate_roots(p, width=Fr(1, 2 ** 200), rel=Fr(1, 2 ** 40))]


def root_scale(coefs):
    """Fujiwara-type scale of the roots (real and complex) from the coefficients: max_k |c_k / c_n|^(1/(n-k)), as a Fraction (coarse: via floats)"""
    cs = list(coefs)
    while cs and cs[-1] == 0.0:
        cs.pop()
    n = len(cs) - 1
    if n < 1:
        return Fr(0)
    best = 0.0
    for k in range(n):
        if cs[k] != 0.0:
            try:
                best = max(best, abs(cs[k] / cs[n]) ** (1.0 / (n - k)))
            except OverflowError:
                return Fr(0)
    return Fr(best) if math.isfinite(best) else Fr(0)


def judge_roots(coefs, out, deg):
    """the property's own reading of `out` (list of floats) for polynomial `coefs` (lowest first).
    A returned value is accepted as a root if it is backward stable (residual within 4096 eps of the term sum, i.e. the
    polynomial vanishes to rounding there) OR forward accurate (|x - r| <= 1e-7 |r| + max(1e-12 nearest other real root, 1e-10 scale of all roots))."""
    if len(out) > deg:
        return f'{len(out)} values returned for degree {deg}'
    p = O.ptrim(exact_poly(coefs))
    if len(p) <= 1:
        return None        # constant polynomial: all-zero gives [0], non-zero constant gives []
    roots = true_roots(coefs)
    mag = max([abs(r) for r in roots] + [Fr(1, 10 ** 9)])
    for x in out:
        if residual_ok(coefs, x):
            continue
        if math.isnan(x) or math.isinf(x):
            return f'non-finite value {x!r} returned for finite coefficients'
        def tol(r):
            others = [abs(s) for s in roots if s != r and s != 0]
            floor0 = Fr(0)
            if coefs[0] == 0.0 and abs(r) < Fr(1, 10 ** 30):
                # an exact root at 0 (c0 == 0): relative accuracy means nothing; allow 1e-10 of the scale of the other roots (complex ones included)
                rest = list(coefs[1:])
                while len(rest) > 2 and abs(rest[-1]) < 1e-6 * max(abs(c) for c in rest):
                    rest.pop()           # a negligible leading coefficient: the roots are those of the lower-degree polynomial
                floor0 = root_scale(rest) / 10 ** 10
            return abs(r) / 10 ** 7 + max((min(others) if others else max(abs(r), Fr(1))) / 10 ** 12, floor0)
        if not any(abs(Fr(x) - r) <= tol(r) for r in roots):
            return f'returned value {x!r} is not a root (neither backward stable nor within 1e-7 of a true root {[float(r) for r in roots]})'
    # multiple roots are not "separated from the others"
    g = O.pgcd(p, O.pderiv(p))
    multiple = [((lo + hi) / 2) for lo, hi in O.isolate_roots(g, width=Fr(1, 2 ** 200), rel=Fr(1, 2 ** 40))] if len(g) > 1 else []
    for k, r in enumerate(roots):
        if any(abs(r - m) <= abs(r) / 10 ** 9 + Fr(1, 10 ** 30) for m in multiple):
            continue
        sep = min([abs(r - s) for j, s in enumerate(roots) if j != k] + [mag * 10])
        if sep < Fr(1, 1000) * max(abs(r), mag / 10 ** 6):
            continue
        if abs(r) * 10 ** 6 < mag:
            continue      # magnitudes more than 1e6 apart: outside the quantifier
        tol = max(abs(r), mag / 10 ** 6) * Fr(1, 10 ** 6)
        hits = [x for x in out if not math.isnan(x) and not math.isinf(x) and abs(Fr(x) - r) <= tol]
        if len(hits) != 1:
            return f'separated real root {float(r)!r} returned {len(hits)} times (output {out})'
    return None


@maker(MAKERS)
def solve_poly(coefs, stratum):
    deg = len(coefs) - 1
    name = {2: 'quadratic', 3: 'cubic', 4: 'quartic'}[deg]
    line = f'solve.{name} {H(*coefs)}'

    def judge(o):
        i = o['I'][0]
        if engine_error(i):
            return 'engine error ' + i
        out = floats_of(' '.join(i.split()[1:]))
        return judge_roots(coefs, out, deg)
    return Case(line, 'I', judge, stratum, 'oracle')


@maker(MAKERS)
def solve_model(coefs, stratum):
    """transcription: impl vs the Float instantiation of the Lean model (quadratic, cubic)"""
    deg = len(coefs) - 1
    name = {2: 'quadratic', 3: 'cubic', 4: 'quartic'}[deg]
    line = f'solve.{name} {H(*coefs)}'

    def judge(o):
        i, f = o['I'][0], o['F'][0]
        if f == 'GENERAL':
            return None          # the LDL^T path is not modelled
        if engine_error(i, f):
            return f'engine error {i} / {f}'
        lead = [c for c in coefs if c != 0.0][-1:] or [1.0]
        n = max(k for k, c in enumerate(coefs) if c != 0.0) if any(coefs) else 0
        rb = max([abs(c / lead[0]) ** (1.0 / (n - k)) for k, c in enumerate(coefs[:n]) if c != 0.0] + [0.0]) if n else 0.0
        sc = max([1e-300, rb] + [abs(x) for x in floats_of(i) if not math.isnan(x) and not math.isinf(x)])
        return None if cmp_ulps(i, f, 64, 1e-13 * sc) else f'impl != model@Float impl={i} model={f}'
    return Case(line, 'IF', judge, stratum, 'corr-F')


@maker(MAKERS)
def itp(coefs, a, b, eps, n0, k1):
    """monotone cubic with a sign change in (a,b): result within eps of the zero (and inside [a,b])"""
    line = f'solve.itp {H(*coefs)} {H(a, b, eps)} {n0} {H(k1)}'

    def judge(o):
        i, f = o['I'][0], o['F'][0]
        if engine_error(i, f):
            return f'engine error {i} / {f}'
        x = h2f(i)
        if not (a <= x <= b):
            return f'ITP result {x} outside the bracket [{a},{b}]'
        roots = [r for r in true_roots(coefs) if a <= r <= b]
        if len(roots) != 1:
            return None
        if abs(Fr(x) - roots[0]) > Fr(eps) * Fr(1001, 1000) + abs(roots[0]) * Fr(1, 10 ** 12):
            return f'ITP result {x} farther than epsilon={eps} from the zero {float(roots[0])}'
        if not cmp_ulps(i, f, 4, 1e-14 * max(1.0, abs(x))):
            return f'CORR impl != model@Float impl={i} model={f}'
        return None
    return Case(line, 'IF', judge, 'itp', 'oracle')


def _same_tokens(i, f):
    """bit-for-bit: same tokens (count, NONE, every double by its bit pattern; nan == nan)"""
    return i.split() == f.split()


@maker(MAKERS)
def quartic_full_model(coefs, stratum):
    """transcription of the WHOLE of solve_quartic (reductions, LDL^T factorisation, Newton polishing, K_Q / K_C rescaling retries):
    impl vs the Float instantiation of `Kurbo.solveQuartic` - same number of values and every value bit-for-bit"""
    line = f'solve.quartic_full {H(*coefs)}'

    def judge(o):
        i, f = o['I'][0], o['F'][0]
        if engine_error(i, f):
            return f'engine error {i} / {f}'
        return None if _same_tokens(i, f) else f'impl != model@Float (bitwise) impl={i} model={f}'
    return Case(line, 'IF', judge, stratum, 'corr-F')


@maker(MAKERS)
def quartic_factor_model(abcd, rescale, stratum):
    """transcription of factor_quartic_inner(a, b, c, d, rescale): impl vs `Kurbo.factorQuarticInner` at Float - the same branch
    (NONE / a pair of quadratics) and the four coefficients bit-for-bit"""
    line = f'solve.factor_quartic {H(*abcd)} {int(rescale)}'

    def judge(o):
        i, f = o['I'][0], o['F'][0]
        if engine_error(i, f):
            return f'engine error {i} / {f}'
        return None if _same_tokens(i, f) else f'impl != model@Float (bitwise) impl={i} model={f}'
    return Case(line, 'IF', judge, stratum, 'corr-F')


@maker(MAKERS)
def cbrt_model(x):
    """f64::cbrt of the toolchain (compiler_builtins' correctly rounded cbrt) vs the model's `floatCbrt`: bit-for-bit"""
    line = f'f.cbrt {H(x)}'

    def judge(o):
        i, f = o['I'][0], o['F'][0]
        if engine_error(i, f):
            return f'engine error {i} / {f}'
        return None if _same_tokens(i, f) else f'cbrt: impl != model@Float impl={i} model={f}'
    return Case(line, 'IF', judge, 'cbrt', 'corr-F')


def general_quartic_cases(co, stratum):
    """the correspondence cases of one quartic (coefficients lowest first): the full solver, and factor_quartic_inner on the monic
    coefficients (as solve_quartic forms them) with and without the K_C rescaling"""
    yield quartic_full_model(co, stratum)
    if co[4] != 0.0:
        abcd = [co[3] / co[4], co[2] / co[4], co[1] / co[4], co[0] / co[4]]
        if all(math.isfinite(x) for x in abcd):
            yield quartic_factor_model(abcd, 0, stratum + '/factor')
            yield quartic_factor_model(abcd, 1, stratum + '/factor-rescaled')


def rnd_root(rng, scale):
    return Fr(rng.choice([-1, 1]) * rng.uniform(0.05, 20.0) * scale).limit_denominator(10 ** 6)


def separated(roots):
    m = max([abs(r) for r in roots] + [Fr(0)])
    for i, a in enumerate(roots):
        for b in roots[i + 1:]:
            if abs(a - b) < Fr(1, 100) * max(abs(a), abs(b), m / 1000):
                return False
    return True


def poly_from(rng, deg, scale):
    """(coefficients as floats lowest first, stratum)"""
    while True:
        kind = rng.random()
        factors = [Fr(1)]
        roots = []
        n = deg
        poly = [Fr(1)]
        while n > 0:
            if n >= 2 and rng.random() < 0.3:
                # complex pair (x - u)^2 + v^2
                u, v = rnd_root(rng, scale), abs(rnd_root(rng, scale))
                poly = O.pmul(poly, [u * u + v * v, -2 * u, Fr(1)])
                n -= 2
            else:
                r = rnd_root(rng, scale)
                roots.append(r)
                poly = O.pmul(poly, [-r, Fr(1)])
                n -= 1
        if separated(roots):
            break
    lead = Fr(rng.choice([1, 1, 1, -2, 3, 0.5, 1e-3, 1e3]) * 1.0)
    return [float(c * lead) for c in poly], f'prescribed-roots-deg{deg}'


def generate(rng, tier):
    n = 250 if tier == 'quick' else 10000
    for _ in range(n):
        for deg in (2, 3, 4):
            scale = 10.0 ** rng.randint(-6, 6) if rng.random() < 0.3 else 1.0
            co, st = poly_from(rng, deg, scale)
            yield solve_poly(co, st)
            if deg < 4:
                yield solve_model(co, st)
            # integer coefficients
            ci = [float(rng.randint(-1000, 1000)) for _ in range(deg + 1)]
            if rng.random() < 0.2:
                ci[rng.randrange(deg + 1)] = 0.0
            yield solve_poly(ci, f'integer-coeffs-deg{deg}')
            if deg < 4:
                yield solve_model(ci, f'integer-coeffs-deg{deg}')
            # shrinking leading coefficient: lower-degree polynomial + tiny top
            lo, _ = poly_from(rng, deg - 1, 1.0) if deg > 2 else ([float(rng.randint(-9, 9) or 1), float(rng.randint(1, 9))], '')
            for lead in (1e-4, 1e-8, 1e-16, 1e-300, 0.0):
                co2 = lo + [lead * rng.choice([-1.0, 1.0])]
                yield solve_poly(co2, f'leading-{lead:g}-deg{deg}')
                if deg < 4:
                    yield solve_model(co2, f'leading-{lead:g}-deg{deg}')
        # sparse polynomials: small integer coefficients, each inner coefficient zero with probability 1/2 (x^4 - 1, x^4 + c x + d, depressed forms)
        for deg in (2, 3, 4):
            cs = [float(rng.randint(-40, 40)) for _ in range(deg + 1)]
            for k in range(1, deg):
                if rng.random() < 0.5:
                    cs[k] = 0.0
            if cs[deg] == 0.0:
                cs[deg] = 1.0
            yield solve_poly(cs, f'sparse-deg{deg}')
            yield solve_model(cs, f'sparse-deg{deg}')
        # quartics that are products of two small-integer quadratics (one of them often without real roots): the resolvent cubic then has exactly
        # vanishing or negligible coefficients
        qa, qb, qc, qd = (float(rng.randint(-6, 6)) for _ in range(4))
        lead = rng.choice([1.0, 1.0, -2.0, 3.0])
        prod = [qb * qd, qa * qd + qb * qc, qb + qd + qa * qc, qa + qc, 1.0]
        yield solve_poly([lead * c for c in prod], 'product-of-integer-quadratics')
        # quartics whose resolvent cubic t^3 + g t + h has g = a c - 4 d - b^2/3 exactly zero (dyadic coefficients): the dominant root is then a bare cube root
        ga, gc, gb = float(rng.randint(-8, 8)), float(rng.randint(-8, 8)), 3.0 * rng.randint(-3, 3)
        gd = (ga * gc - gb * gb / 3) / 4
        if gd != 0.0:
            yield solve_poly([gd, gc, gb, ga, 1.0], 'resolvent-g-zero')
        # nearly pure cubics x^3 + e2 x^2 + e1 x = k (negligible depressed linear term): the one-root branch
        k0 = rng.uniform(-5, 5) or 1.0
        e2, e1 = rng.uniform(-1, 1) * 10.0 ** rng.randint(-9, -2), rng.uniform(-1, 1) * 10.0 ** rng.randint(-12, -3)
        lead = rng.choice([1.0, -3.0, 879.0])
        yield solve_poly([-k0 * lead, e1 * lead, e2 * lead, lead], 'nearly-pure-cubic')
        # double / triple roots and degenerate
        r = float(rng.randint(-9, 9))
        yield solve_poly([r * r, -2 * r, 1.0], 'double-root')
        yield solve_model([r * r, -2 * r, 1.0], 'double-root')
        yield solve_poly([-r ** 3, 3 * r * r, -3 * r, 1.0], 'triple-root')
        yield solve_model([0.0, 0.0, 0.0], 'all-zero')
        yield solve_model([0.0, 0.0, 0.0, 0.0], 'all-zero')
        yield solve_model([float(rng.randint(1, 9)), 0.0, 0.0], 'constant')
        # ---- general quartic path, implementation vs Float model (C15Q): bit-for-bit
        scale = 10.0 ** rng.randint(-6, 6) if rng.random() < 0.3 else 1.0
        co, _ = poly_from(rng, 4, scale)
        yield from general_quartic_cases(co, 'general-prescribed-roots')
        yield from general_quartic_cases([float(rng.randint(-1000, 1000)) for _ in range(5)], 'general-integer-coeffs')
        cs = [float(rng.randint(-40, 40)) for _ in range(5)]
        for k in range(1, 4):
            if rng.random() < 0.5:
                cs[k] = 0.0
        if cs[4] == 0.0:
            cs[4] = 1.0
        yield from general_quartic_cases(cs, 'general-sparse')
        yield from general_quartic_cases([lead * c for c in prod], 'general-product-of-integer-quadratics')
        if gd != 0.0:
            yield from general_quartic_cases([gd, gc, gb, ga, 1.0], 'general-resolvent-g-zero')
        # equal linear coefficients of the two quadratic factors (d_2 = 0 up to rounding: the `d_2 == 0` branch and the noise test)
        ep, eq, er = float(rng.randint(-9, 9)), float(rng.randint(-9, 9)), float(rng.randint(-9, 9))
        yield from general_quartic_cases([eq * er, ep * (eq + er), eq + er + ep * ep, 2 * ep, 1.0], 'general-equal-linear-factors')
        # roots scaled by 10^e: coefficient c_k scaled by t^(4-k); |e| >= 60 makes the plain attempt overflow/underflow (K_Q retries, K_C rescaling)
        co, _ = poly_from(rng, 4, 1.0)
        e10 = rng.choice([-80, -70, -60, -40, 30, 40, 50, 60, 70, 75, 76, 77])
        try:
            big = [co[k] * (10.0 ** e10) ** (4 - k) for k in range(5)]
        except OverflowError:
            big = None
        if big and all(math.isfinite(x) for x in big):
            yield from general_quartic_cases(big, 'general-scaled-roots')
        yield from general_quartic_cases([rng.uniform(-1, 1) * 10.0 ** rng.randint(-150, 150) for _ in range(5)], 'general-wild-exponents-150')
        yield from general_quartic_cases([rng.uniform(-1, 1) * 10.0 ** rng.randint(-30, 30) for _ in range(5)], 'general-wild-exponents-30')
        lo3, _ = poly_from(rng, 3, 1.0)
        yield from general_quartic_cases(lo3 + [rng.choice([1e-4, 1e-8, 1e-16, 1e-100, 1e-300])], 'general-small-leading')
        xb = rng.uniform(-1, 1) * 10.0 ** rng.randint(-300, 300) if rng.random() < 0.5 else rng.uniform(-1000, 1000)
        yield cbrt_model(xb)
        # ITP on a monotone cubic x^3 + p x + q (p >= 0) shifted
        p, q = rng.uniform(0.0, 5.0), rng.uniform(-5.0, 5.0)
        co = [q, p, 0.0, 1.0]
        a, b = -10.0, 10.0
        yield itp(co, a, b, rng.choice([1e-3, 1e-6, 1e-9, 1e-12]), rng.choice([0, 1, 2]), rng.choice([0.2, 0.1, 0.05]))


def _coefs_of(case):
    return case.meta.get('args', [[]])[0]


def cubic_small_leading(case, outs, verdict):
    """root cause: a cubic (also one reached through the quartic reductions c4 == 0 / c0 == 0) whose leading coefficient is so
    small that one root lies >= 1e3 times farther out than the others: the depressed form then loses the moderate roots to
    cancellation (garbage values), and for |c3| ~ 1e-300 the scaled coefficients overflow to NaN"""
    co = list(_coefs_of(case))
    if len(co) == 5:
        if co[4] == 0.0:
            co = co[:4]
        elif co[0] == 0.0:
            co = co[1:]
    if len(co) != 4 or co[3] == 0.0 or co[2] == 0.0:
        return False
    c0, c1, c2, c3 = (abs(x) for x in co)
    big = c2 / c3 if c3 > 1e-290 * c2 else float('inf')
    return big >= 1e3 * max(c1 / c2, math.sqrt(c0 / c2))


def quartic_overflow_leading(case, outs, verdict):
    """root cause: a quartic whose leading coefficient is so small that the monic coefficients c_k/c4 exceed the range
    the rescaling constants K_Q / K_C can absorb: solve_quartic gives up and returns no roots"""
    co = list(_coefs_of(case))
    if len(co) != 5 or co[4] == 0.0 or co[0] == 0.0:
        return False
    m = max(abs(c) for c in co[:4])
    return m > 1e140 * abs(co[4])


def cubic_one_root_cancellation(case, outs, verdict):
    """root cause: in the one-real-root branch solve_cubic forms t = cbrt(r + sq) + cbrt(r - sq); when the depressed linear coefficient d0 is negligible
    (|d0|^3 < ~1e-10 r^2: the cubic is nearly x^3 = k) one of the two radicands is pure cancellation noise and the root comes out with a relative error of up
    to ~3e-6 (the stable form takes the cube root of the larger radicand and obtains the other as -d0/u; that repair was tried and is exact to rounding, but
    the crate's own test expects -2.0 for solve_cubic(2+1e-12,5,4,1), whose true root is -2.000000000001, with a strict 1e-12 bound, so the unedited suite
    would fail).  The class: that regime, returned value within 1e-5 relative of the true root."""
    import re
    co = list(_coefs_of(case))
    if len(co) == 5:
        if co[4] == 0.0:
            co = co[:4]
        elif co[0] == 0.0:
            co = co[1:]
    if len(co) != 4 or co[3] == 0.0 or 'is not a root' not in verdict:
        return False
    c2, c1, c0 = co[2] / (3 * co[3]), co[1] / (3 * co[3]), co[0] / co[3]
    d0 = c1 - c2 * c2
    d1 = c0 - c1 * c2
    d2 = c2 * c0 - c1 * c1
    d = 4 * d0 * d2 - d1 * d1
    de = -2 * c2 * d0 + d1
    if not (d < 0 and abs(d0) ** 3 < 1e-10 * (0.5 * de) ** 2):
        return False
    m = re.search(r'returned value ([-0-9.e+]+) is not a root .*true root \[([^\]]*)\]', verdict)
    if not m:
        return False
    x = float(m.group(1))
    roots = [float(t) for t in m.group(2).split(',') if t.strip()]
    return any(abs(x - r) <= 1e-5 * abs(r) for r in roots)


def quartic_equal_linear_factors(case, outs, verdict):
    """root cause: a quartic that factors into two quadratics with the SAME linear coefficient, x^4+ax^3+bx^2+cx+d = (x^2+px+q)(x^2+px+r)
    (equivalently c = (a/2)(b - a^2/4); for instance two pairs of roots with equal sums): the LDL^T factorisation then has d_2 = 0 up to rounding,
    the code only handles the exact `d_2 == 0.0` ("TODO: handle case d_2 is very small?") and about 3 % of such inputs come out as two garbage double roots
    (solve_quartic(-4,-22,-21,2,1) -> -3.854, 2.854 twice; roots -5.236, -0.764, -0.236, 4.236)."""
    co = list(_coefs_of(case))
    if len(co) != 5 or co[4] == 0.0 or co[0] == 0.0:
        return False
    a, b, c = co[3] / co[4], co[2] / co[4], co[1] / co[4]
    if a == 0.0 and c == 0.0:
        return False
    return abs(c - (a / 2) * (b - a * a / 4)) <= 1e-9 * (abs(c) + abs(a * b) + abs(a) ** 3 + 1e-300)


KNOWN_CLASSES = {'cubic_small_leading': cubic_small_leading, 'quartic_overflow_leading': quartic_overflow_leading,

                 'cubic_one_root_cancellation': cubic_one_root_cancellation}
