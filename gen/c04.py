"""C04 – the stroke outline fills exactly the offset region of the path."""
from .common import *
from . import oracle as O
from fractions import Fraction as Fr

RULE = ('open/closed paths: polylines with sharp turns (incl. reversals > 150 deg) and segments shorter than the width, smooth chains of G1 cubics sampled from '
        'analytic curves, arbitrary cubics with loops and cusps; widths 0.05..10, tolerances 1e-3..0.5, all 3 joins x 3 caps, dashed/undashed (the dashed '
        'source is the crate\'s own dash output, decided separately by C13), default StrokeOpts. Oracle per query point q (jittered grid over the inflated '
        'bounding box): d = distance from q to the source (closed form for lines, bracketed minimisation for curves); COVER: some segment has its nearest '
        'point to q in its interior at distance < w/2 - 3 tol (straight, or curvature radius > w/2 along the segment, or round joins and caps) => non-zero '
        'winding of the outline about q; EXCLUDE: d > w/2 * [sqrt2 if square caps] * [miter limit if miter joins] + 3 tol => winding 0. The winding of the '
        'implementation\'s outline is computed EXACTLY over Q (ray crossings of every line/quad/cubic isolated by Sturm sequences, generic row); every number '
        'finite; every contour returns to its start. non-trivial = distinct (path, style, tolerance) with at least one query point decided')
KERNEL_DEPS = [r'Vec2\.(hypot|hypot2|dot|cross|turn_90)', r'Line\.eval', r'CubicBez\.(eval|deriv)', r'QuadBez\.eval']
UNPROVED = ['covering direction and everything about curved sources: the outline of a curve is produced by curve fitting (C18); decided by the exact-winding oracle only',
            'round joins/caps: arc accuracy is C10; here only through the oracle']
ASSUMPTIONS = ['the style bound is read as the PRODUCT w/2 * sqrt2(square) * limit(miter), the weakest reading of the statement']
MAKERS = {}
HEAVY_JUDGE = True


def els_str(els):
    return ' '.join(el[0] + (' ' + ' '.join(H(*p) for p in el[1:]) if len(el) > 1 else '') for el in els)


# ------------------------------------------------------------------ float geometry of the source

def bez_eval(pts, t):
    n = len(pts)
    if n == 2:
        return (pts[0][0] + (pts[1][0] - pts[0][0]) * t, pts[0][1] + (pts[1][1] - pts[0][1]) * t)
    ps = list(pts)
    while len(ps) > 1:
        ps = [(a[0] + (b[0] - a[0]) * t, a[1] + (b[1] - a[1]) * t) for a, b in zip(ps, ps[1:])]
    return ps[0]


def seg_nearest(q, pts):
    """-> (distance, t) of the nearest point of the segment to q (floats; curves: 64 samples + golden refinement of every local minimum)"""
    if len(pts) == 2:
        ax, ay = pts[0]
        dx, dy = pts[1][0] - ax, pts[1][1] - ay
        dd = dx * dx + dy * dy
        t = 0.0 if dd == 0 else min(1.0, max(0.0, ((q[0] - ax) * dx + (q[1] - ay) * dy) / dd))
        return math.hypot(q[0] - ax - t * dx, q[1] - ay - t * dy), t
    N = 64
    f = lambda t: (lambda p: (p[0] - q[0]) ** 2 + (p[1] - q[1]) ** 2)(bez_eval(pts, t))
    vals = [f(i / N) for i in range(N + 1)]
    best = (vals[0], 0.0)
    if vals[N] < best[0]:
        best = (vals[N], 1.0)
    for i in range(N + 1):
        lo, hi = max(0, i - 1), min(N, i + 1)
        if vals[i] <= vals[lo] and vals[i] <= vals[hi]:
            a, b = lo / N, hi / N
            g = (math.sqrt(5) - 1) / 2
            c, d = b - g * (b - a), a + g * (b - a)
            fc, fd = f(c), f(d)
            for _ in range(48):
                if fc < fd:
                    b, d, fd = d, c, fc
                    c = b - g * (b - a)
                    fc = f(c)
                else:
                    a, c, fc = c, d, fd
                    d = a + g * (b - a)
                    fd = f(d)
            t = (a + b) / 2
            v = f(t)
            if v < best[0]:
                best = (v, t)
    return math.sqrt(best[0]), best[1]


def min_curv_radius(pts):
    """smallest radius of curvature along a quad/cubic (sampled; 0 at a cusp)"""
    n = len(pts) - 1
    d1 = [((b[0] - a[0]) * n, (b[1] - a[1]) * n) for a, b in zip(pts, pts[1:])]
    d2 = [((b[0] - a[0]) * (n - 1), (b[1] - a[1]) * (n - 1)) for a, b in zip(d1, d1[1:])]
    r = float('inf')
    for i in range(129):
        t = i / 128
        v = bez_eval(d1, t) if len(d1) > 1 else d1[0]
        a = bez_eval(d2, t) if len(d2) > 1 else d2[0]
        s = math.hypot(*v)
        cr = abs(v[0] * a[1] - v[1] * a[0])
        if s == 0:
            return 0.0
        if cr > 0:
            r = min(r, s ** 3 / cr)
    return r


# ------------------------------------------------------------------ exact winding of the outline

def winding_outline(segsF, q, eta):
    """exact winding number on the generic row y = q.y + eta; segsF: list of control-point lists in Fractions. None = row not generic"""
    qx, qy = Fr(q[0]), Fr(q[1]) + eta
    w = 0
    for pts in segsF:
        ys = [p[1] for p in pts]
        if min(ys) > qy or max(ys) < qy:
            continue
        f0, f1 = pts[0][1] - qy, pts[-1][1] - qy
        if f0 == 0 or f1 == 0:
            return None
        xs = [p[0] for p in pts]
        if min(xs) >= qx:
            continue                                    # every crossing is to the right of q
        if max(xs) < qx or len(pts) == 2:
            if len(pts) == 2:
                if (f0 < 0) == (f1 < 0):
                    continue
                t = f0 / (f0 - f1)
                x = pts[0][0] + t * (pts[1][0] - pts[0][0])
                if x < qx:
                    w += -1 if f1 > f0 else 1
            else:
                # all crossings are to the left: net count from the end signs
                w += -((1 if f1 > 0 else -1) - (1 if f0 > 0 else -1)) // 2
            continue
        px, py = O.seg_polys(pts)
        f = O.padd(py, [-qy])
        df = O.pderiv(f)
        for lo, hi in O.isolate_roots(f, Fr(0), Fr(1), Fr(1, 2 ** 70)):
            t = (lo + hi) / 2
            dy = O.peval(df, t) if df else Fr(0)
            if dy == 0:
                s = O.sign(O.peval(f, hi)) - O.sign(O.peval(f, lo))
                if s == 0:
                    continue
                dy = s
            if O.peval(px, t) < qx:
                w += -1 if dy > 0 else 1
    return w


def contours(els):
    """split an outline into sub-paths: list of element lists starting with M"""
    out = []
    for el in els:
        if el[0] == 'M' or not out:
            out.append([])
        out[-1].append(el)
    return out


def judge_region(src_els, out_els, w, join, cap, ml, tol, nq, seed):
    """src_els: the (possibly dashed) source; out_els: the outline.  returns verdict or None, and stats"""
    from .shapes_common import parse_els
    for el in out_els:
        for p in el[1:]:
            if not (math.isfinite(p[0]) and math.isfinite(p[1])):
                return 'non-finite outline'
    src = O.path_segments(src_els)
    src = [s for s in src]
    if not src:
        return None
    for k, c in enumerate(contours(out_els)):
        if c[0][0] != 'M':
            return f'outline contour {k} does not start with MoveTo'
        if len(c) > 1 and c[-1][0] != 'Z':
            last = c[-1][-1]
            ext = max(1.0, abs(last[0]), abs(last[1]))
            if math.hypot(last[0] - c[0][1][0], last[1] - c[0][1][1]) > 1e-9 * ext:
                return f'outline contour {k} does not return to its starting point: starts {c[0][1]}, ends {last}'
    allp = [p for s in src for p in s]
    hw = w / 2
    bound = hw * (math.sqrt(2) if cap == 1 else 1.0) * (max(1.0, ml) if join == 1 else 1.0)
    infl = bound + 4 * tol + 0.25 * w
    x0, x1 = min(p[0] for p in allp) - infl, max(p[0] for p in allp) + infl
    y0, y1 = min(p[1] for p in allp) - infl, max(p[1] for p in allp) + infl
    rng = random.Random(seed)
    radius = [float('inf') if len(s) == 2 else (0.0 if tight_points([s], 1.05 * hw) else min_curv_radius(s)) for s in src]
    round_all = (join == 2 and cap == 2)
    segsF = [[(Fr(p[0]), Fr(p[1])) for p in s] for s in O.path_segments(out_els)]
    ext = max(abs(x0), abs(x1), abs(y0), abs(y1), 1.0)
    eta = Fr(ext) / 2 ** 44
    # query points: a jittered grid plus points placed at controlled offsets from the source (inside and outside)
    qs = []
    g = max(2, int(math.sqrt(nq // 2)))
    for i in range(g):
        for j in range(g):
            qs.append((x0 + (x1 - x0) * (i + rng.random()) / g, y0 + (y1 - y0) * (j + rng.random()) / g))
    for _ in range(nq - len(qs)):
        s = rng.choice(src)
        t = rng.random()
        p = bez_eval(s, t)
        a = rng.uniform(0, 2 * math.pi)
        r = rng.choice([rng.uniform(0, hw - 3 * tol) if hw > 3 * tol else 0.0, bound + 3 * tol + rng.uniform(0.01, 0.3) * w, rng.uniform(0, bound + 4 * tol)])
        qs.append((p[0] + r * math.cos(a), p[1] + r * math.sin(a)))
    decided = 0
    # every boundary point of the filled region is a limit of covered points: sample the outline itself; where a sample is farther from the
    # source than the style bound, the two points next to it (left and right of the outline) decide
    out_segs = O.path_segments(out_els)
    step = max(tol, 1e-7 * ext)
    for pts in out_segs:
        for t in (0.0, 0.25, 0.5, 0.75):
            x = bez_eval(pts, t)
            d = min(seg_nearest(x, s)[0] for s in src)
            if d <= bound + 3 * tol + step:
                continue
            x2 = bez_eval(pts, min(1.0, t + 1e-3))
            tx, ty = x2[0] - x[0], x2[1] - x[1]
            ln = math.hypot(tx, ty)
            if ln == 0:
                continue
            for sgn in (1.0, -1.0):
                q = (x[0] - sgn * ty / ln * step, x[1] + sgn * tx / ln * step)
                wn = winding_outline(segsF, q, eta)
                if wn is None:
                    wn = winding_outline(segsF, q, -eta * 3)
                if wn:
                    dq = min(seg_nearest(q, s)[0] for s in src)
                    if dq > bound + 3 * tol:
                        return (f'point {q} next to the outline is at distance {dq:.6g} > style bound {bound:.6g} (+3 tol) from the path but the outline '
                                f'has winding {wn} there')
    for q in qs:
        near = [seg_nearest(q, s) for s in src]
        d = min(n[0] for n in near)
        must_cover = None
        for k, (dk, tk) in enumerate(near):
            if dk < hw - 3 * tol and 1e-6 < tk < 1 - 1e-6:
                if len(src[k]) == 2:
                    if src[k][0] != src[k][1]:
                        must_cover = k
                        break
                elif round_all or radius[k] > 1.05 * hw:
                    must_cover = k
                    break
        must_exclude = d > bound + 3 * tol
        if must_cover is None and not must_exclude:
            continue
        wn = winding_outline(segsF, q, eta)
        if wn is None:
            wn = winding_outline(segsF, q, -eta * 3)
            if wn is None:
                continue
        decided += 1
        if must_cover is not None and wn == 0:
            return (f'point {q} is at distance {near[must_cover][0]:.6g} < w/2 = {hw:.6g} from the interior (t={near[must_cover][1]:.4f}) of source segment '
                    f'{must_cover} but the outline has winding 0 there')
        if must_exclude and wn != 0:
            return f'point {q} is at distance {d:.6g} > style bound {bound:.6g} (+3 tol) from the path but the outline has winding {wn} there'
    return None


@maker(MAKERS)
def region(els, w, join, cap, ml, off, pat, tol, nq, seed, stratum):
    s = els_str(els)
    style = f'{H(w)} {join} {cap} {H(ml)} {H(off)} {len(pat)}' + (' ' + H(*pat) if pat else '')
    lines = [f'path.stroke {style} {H(tol)} {s}']
    if pat:
        lines.append(f'path.dash {H(off)} {len(pat)} {H(*pat)} {s}')

    def judge(o):
        from .shapes_common import parse_els
        i = o['I'][0]
        if engine_error(i):
            return 'engine error ' + i[:200]
        out = parse_els(i.split(' | ', 1)[1]) if ' | ' in i else parse_els(i)
        if out is None:
            return 'unparsable outline ' + i[:100]
        src = list(els)
        if pat:
            d = o['I'][1]
            if engine_error(d):
                return 'engine error (dash) ' + d[:200]
            src = parse_els(d[3:] if d.startswith('ok ') else d)
        v = judge_region(src, out, w, join, cap, ml, tol, nq, seed)
        if v:
            return v
        if polyline_src:
            f = o['F'][0]
            if f == 'NOT-MODELLED':
                return 'CORR the model does not cover this polyline source'
            if engine_error(f):
                return 'CORR engine error (model) ' + f[:100]
            fe = parse_els(f[3:] if f.startswith('ok ') else f)
            if [e[0] for e in fe] != [e[0] for e in out]:
                return f'CORR structure impl={"".join(e[0] for e in out)} model={"".join(e[0] for e in fe)}'
            sc = max([1.0, w] + [abs(c) for el in els for p in el[1:] for c in p])
            for a, b in zip(out, fe):
                for pa, pb in zip(a[1:], b[1:]):
                    if abs(pa[0] - pb[0]) > 1e-9 * sc or abs(pa[1] - pb[1]) > 1e-9 * sc:
                        return f'CORR impl != model@Float: {a} vs {b}'
        return None
    polyline_src = all(el[0] in 'MLZ' for el in els)
    return Case(lines, 'IF' if polyline_src else 'I', judge, stratum, 'oracle')


# ------------------------------------------------------------------ sources

def polyline(rng, sharp):
    n = rng.randint(2, 7)
    pts = [(rng.uniform(-5, 5), rng.uniform(-5, 5))]
    ang = rng.uniform(0, 2 * math.pi)
    for _ in range(n):
        if sharp:
            ang += rng.choice([rng.uniform(2.6, 3.1), -rng.uniform(2.6, 3.1), rng.uniform(-1.5, 1.5), math.pi / 2])
            ln = rng.choice([rng.uniform(0.02, 0.4), rng.uniform(1, 6)])
        else:
            ang += rng.uniform(-1.2, 1.2)
            ln = rng.uniform(1, 6)
        pts.append((pts[-1][0] + ln * math.cos(ang), pts[-1][1] + ln * math.sin(ang)))
    els = [('M', pts[0])] + [('L', p) for p in pts[1:]]
    if rng.random() < 0.35:
        els.append(('Z',))
    return els


def smooth_chain(rng):
    """G1 cubic chain sampled from an analytic curve (ellipse-like spiral / sine), Hermite form"""
    kind = rng.choice(['sine', 'spiral', 'ellipse'])
    n = rng.randint(2, 8)
    if kind == 'sine':
        a, k = rng.uniform(0.5, 3), rng.uniform(0.3, 1.2)
        f = lambda t: (t * 3, a * math.sin(k * t * 3))
        df = lambda t: (3.0, a * k * 3 * math.cos(k * t * 3))
        T = rng.uniform(1.5, 4)
    elif kind == 'spiral':
        b = rng.uniform(0.3, 1.0)
        f = lambda t: ((2 + b * t) * math.cos(t), (2 + b * t) * math.sin(t))
        df = lambda t: (b * math.cos(t) - (2 + b * t) * math.sin(t), b * math.sin(t) + (2 + b * t) * math.cos(t))
        T = rng.uniform(2, 7)
    else:
        rx, ry = rng.uniform(2, 6), rng.uniform(2, 6)
        f = lambda t: (rx * math.cos(t), ry * math.sin(t))
        df = lambda t: (-rx * math.sin(t), ry * math.cos(t))
        T = rng.uniform(2, 6)
    ts = [T * i / n for i in range(n + 1)]
    els = [('M', f(ts[0]))]
    for ta, tb in zip(ts, ts[1:]):
        h = (tb - ta) / 3
        p0, p3, d0, d3 = f(ta), f(tb), df(ta), df(tb)
        els.append(('C', (p0[0] + h * d0[0], p0[1] + h * d0[1]), (p3[0] - h * d3[0], p3[1] - h * d3[1]), p3))
    return els


def wild_cubics(rng):
    n = rng.randint(1, 3)
    p = (rng.uniform(-4, 4), rng.uniform(-4, 4))
    els = [('M', p)]
    for _ in range(n):
        r = rng.random()
        if r < 0.3:      # loop
            a = (p[0] + rng.uniform(3, 6), p[1] + rng.uniform(3, 6))
            b = (p[0] - rng.uniform(3, 6) + 3, p[1] + rng.uniform(3, 6))
            e = (p[0] + rng.uniform(2, 4), p[1] + rng.uniform(-1, 1))
        elif r < 0.5:    # cusp-like
            a = (p[0] + 4, p[1] + 4)
            b = (p[0], p[1] + 4)
            e = (p[0] + 4, p[1] + rng.uniform(-0.2, 0.2))
        elif r < 0.75:   # retracted handle(s): a control point coincides with its end point (corner-to-smooth segments)
            a, b, e = [(rng.uniform(-6, 6), rng.uniform(-6, 6)) for _ in range(3)]
            which = rng.random()
            if which < 0.45:
                a = p
            elif which < 0.9:
                b = e
            else:
                a, b = p, e
        else:
            a, b, e = [(rng.uniform(-6, 6), rng.uniform(-6, 6)) for _ in range(3)]
        els.append(('C', a, b, e))
        p = e
    if rng.random() < 0.2:
        els.append(('Z',))
    return els


def generate(rng, tier):
    # wide strokes at fine tolerance with ROUND joins and caps (width / tolerance 5e3 .. 1e6): the arcs of the caps and joins must honour the stroke
    # tolerance (they used to be drawn with a fixed 1e-3 on the unit circle = width/2000 in the output: 13 tolerances at width 100, tolerance 1e-3)
    for k in range(10 if tier == 'quick' else 150):
        w = rng.choice([50.0, 100.0, 400.0, 2000.0])
        tolw = w * 10.0 ** rng.uniform(-6, -3.7)
        els = polyline(rng, False) if k % 2 else [('M', (rng.uniform(-5, 5), rng.uniform(-5, 5))), ('L', (rng.uniform(20, 60), rng.uniform(-5, 5)))]
        yield region(els, w, 2, 2 if k % 3 else 0, 4.0, 0.0, [], tolw, 36 if tier == 'quick' else 90, rng.randrange(1 << 30), 'wide-round')
    n = 150 if tier == 'quick' else 1800
    nq = 36 if tier == 'quick' else 90
    for k in range(n):
        # ten-step cycle; the steps 3, 5 and 7 are replaced by the special strata below ('wild' used to be overridden completely by them)
        kind = ['poly', 'poly-sharp', 'smooth', 'wild', 'poly', 'poly-sharp', 'smooth', 'wild', 'wild', 'poly-sharp'][k % 10]
        els = {'poly': lambda: polyline(rng, False), 'poly-sharp': lambda: polyline(rng, True), 'smooth': lambda: smooth_chain(rng), 'wild': lambda: wild_cubics(rng)}[kind]()
        short_arm = False
        if k % 10 == 7:
            # corner-to-smooth cubics with a retracted handle, thin strokes (the regularisation of the zero-length control arm decides the outline)
            kind = 'retracted'
            p0, c, e = [(rng.uniform(-6, 6), rng.uniform(-6, 6)) for _ in range(3)]
            if rng.random() < 0.6:
                # the other control point close to the same end point (control arms of 0.002 .. 0.01, fine tolerances): the regularisation nudge
                # (tolerance / 4) is comparable to the arm, a wrongly scaled nudge moves the control point by many tolerances
                ang, ln = rng.uniform(0, 2 * math.pi), 10.0 ** rng.uniform(-2.7, -2)
                c = (p0[0] + ln * math.cos(ang), p0[1] + ln * math.sin(ang))
                els = [('M', p0), ('C', p0, c, e)] if rng.random() < 0.5 else [('M', e), ('C', c, p0, p0)]
                short_arm = True
            else:
                els = [('M', p0), ('C', p0, c, e)] if rng.random() < 0.6 else [('M', p0), ('C', c, e, e)]
        if k % 10 == 5:
            # exact reversals of direction (cross product exactly 0, dot < 0): a polyline that retraces a segment (A -> B -> A [-> C]), or an axis-aligned /
            # exactly collinear cubic that runs past its end point and turns back (handled as a polyline with cusps by do_linear)
            kind = 'retrace'
            a = (rng.randint(-20, 20) / 4.0, rng.randint(-20, 20) / 4.0) if rng.random() < 0.5 else (rng.uniform(-5, 5), rng.uniform(-5, 5))
            b = (a[0] + rng.choice([-1, 1]) * rng.uniform(1, 9), a[1] + rng.choice([-1, 0, 1]) * rng.uniform(1, 9))
            r = rng.random()
            if r < 0.55:
                els = [('M', a), ('L', b), ('L', a)]
                if rng.random() < 0.6:
                    els.append(('L', (a[0] + rng.uniform(-6, 6), a[1] + rng.uniform(-6, 6))))
                if rng.random() < 0.3:
                    els = [('M', (a[0] + rng.uniform(-6, 6), a[1] + rng.uniform(-6, 6))), ('L', a)] + els[1:]
            else:
                # collinear cubic on a horizontal / vertical / dyadic-direction line: parameters along the line 0, u, v, 1 with an overshoot
                d = rng.choice([(8.0, 0.0), (0.0, 8.0), (4.0, 4.0), (-8.0, 2.0)])
                u, v = rng.choice([(1.5, -0.5), (1.25, 0.25), (0.5, 1.75), (-0.5, 0.5), (1.5, 1.25)])
                o = (rng.randint(-20, 20) / 4.0, rng.randint(-20, 20) / 4.0)
                pt = lambda t: (o[0] + t * d[0], o[1] + t * d[1])
                els = [('M', pt(0.0)), ('C', pt(u), pt(v), pt(1.0))]
        flat_arm = False
        if k % 10 == 3:
            # nearly flat cubics whose first (or last) control arm is under 1 % of the chord - they take the "potentially a cusp" path of do_cubic - and whose
            # control points sit between a few tolerances and sqrt(tolerance) off the chord: not collinear, must be stroked as curves
            kind = 'flat-short-arm'
            flat_arm = True
            L_ = rng.uniform(20, 100)
            tol_f = 10.0 ** rng.uniform(-3, -2)
            h_ = rng.uniform(8 * tol_f, 0.9 * math.sqrt(tol_f))
            ang_ = rng.uniform(0, 2 * math.pi)
            ca, sa = math.cos(ang_), math.sin(ang_)
            o_ = (rng.uniform(-5, 5), rng.uniform(-5, 5))
            loc = [(0.0, 0.0), (rng.uniform(0.001, 0.008) * L_, h_), (rng.uniform(0.4, 0.8) * L_, h_), (L_, 0.0)]
            if rng.random() < 0.5:
                loc = [(L_ - x, y) for x, y in reversed(loc)]
            wpts = [(o_[0] + ca * x - sa * y, o_[1] + sa * x + ca * y) for x, y in loc]
            els = [('M', wpts[0]), ('C', wpts[1], wpts[2], wpts[3])]
        join, cap = (k // 10) % 3, (k // 30) % 3
        if rng.random() < 0.3:
            join, cap = rng.randint(0, 2), rng.randint(0, 2)
        w = rng.choice([0.05, 0.3]) if kind == 'retracted' else rng.choice([0.05, 0.3, 1.0, 2.5, 10.0]) if kind != 'smooth' else rng.choice([0.05, 0.3, 1.0, 2.0])
        tol = 10.0 ** rng.uniform(-3, math.log10(0.5))
        if tol > w / 8:
            tol = max(1e-3, w / 8)
        if short_arm:
            tol = 10.0 ** rng.uniform(-3, -2.5)
        if flat_arm:
            tol, w = tol_f, rng.choice([0.3, 1.0, 2.0])
        ml = rng.choice([1.5, 4.0, 10.0])
        pat, off = [], 0.0
        if rng.random() < 0.3:
            pat = [rng.choice([0.5, 1.0, 2.5]) for _ in range(rng.choice([1, 2, 4]))]
            off = rng.uniform(0, 3)
        yield region(els, w, join, cap, ml, off, pat, tol, nq, rng.randrange(1 << 30), f'{kind}-j{join}c{cap}' + ('-dash' if pat else ''))


# ------------------------------------------------------------------ known finding: tight curvature

TIGHT_TURN = 2.0     # radians: cusps, hairpins and loops; a tight but short bend (e.g. next to a short control arm) does not count


def tight_points(src, hw, min_turn=None):
    """sample points of curved source segments where the radius of curvature is below the half width (incl. cusps: speed ~ 0)"""
    pts = []
    for seg in src:
        if len(seg) == 2:
            continue
        n = len(seg) - 1
        d1 = [((b[0] - a[0]) * n, (b[1] - a[1]) * n) for a, b in zip(seg, seg[1:])]
        d2 = [((b[0] - a[0]) * (n - 1), (b[1] - a[1]) * (n - 1)) for a, b in zip(d1, d1[1:])]
        vmax = max(math.hypot(*v) for v in d1) or 1.0

        def rad(t):
            v = bez_eval(d1, t) if len(d1) > 1 else d1[0]
            a = bez_eval(d2, t) if len(d2) > 1 else d2[0]
            sp = math.hypot(*v)
            cr = abs(v[0] * a[1] - v[1] * a[0])
            if sp < 1e-7 * vmax:
                return float('inf')      # a stationary point by itself says nothing (retracted handle): a cusp shows in the radius next to it
            return sp ** 3 / cr if cr > 0 else float('inf')
        N = 512
        rs = [rad(i / N) for i in range(N + 1)]
        tight = [False] * (N + 1)
        for i in range(N + 1):
            r = rs[i]
            if r >= hw and rs[max(0, i - 1)] >= r <= rs[min(N, i + 1)]:
                # local minimum of the sampled radius: refine (the radius dips sharply next to a near-cusp)
                lo, hi = max(0, i - 1) / N, min(N, i + 1) / N
                for _ in range(3):
                    sub = [lo + (hi - lo) * k / 64 for k in range(65)]
                    vals = [rad(t) for t in sub]
                    jj = vals.index(min(vals))
                    lo, hi = sub[max(0, jj - 1)], sub[min(64, jj + 1)]
                    r = vals[jj]
            tight[i] = r < hw

        def direction(i):
            v = bez_eval(d1, min(1.0, max(0.0, i / N))) if len(d1) > 1 else d1[0]
            return math.atan2(v[1], v[0]) if v != (0.0, 0.0) else None
        i = 0
        while i <= N:
            if not tight[i]:
                i += 1
                continue
            k = i
            while k + 1 <= N and tight[k + 1]:
                k += 1
            # total turning of the tangent across the tight stretch (one sample of margin on either side)
            turn, prev = 0.0, None
            for m in range(max(0, i - 1), min(N, k + 1) + 1):
                a = direction(m)
                if a is None:
                    continue
                if prev is not None:
                    dlt = abs(a - prev)
                    turn += min(dlt, 2 * math.pi - dlt)
                prev = a
            if turn >= (TIGHT_TURN if min_turn is None else min_turn):
                # a stretch that is tight but hardly turns (the curvature blows up next to a retracted handle, over a negligible length) is harmless
                pts.extend(bez_eval(seg, m / N) for m in range(i, k + 1))
            i = k + 1
    return pts


def tight_curvature(case, outs, verdict):
    """root cause: the source contains a curved segment with a point where the radius of curvature is smaller than half the stroke width (cusp,
    loop, tight turn).  There the parallel curve has its own cusps (evolute crossing); kurbo strokes by offsetting + regularising + curve fitting
    and documents that this is not the rigorous parallel sweep: around such points the outline can run up to several half widths outside the ideal
    region (a spike appears for particular tolerances) and the inverted piece of the offset (winding -1) can cancel the +1 of neighbouring
    pieces.  A failing point belongs to the class iff it is within max(8 half widths + 3 tol, half the segment's diameter, a fifth of the extent of the whole source) of a curved source segment that has such a point (the spikes at near-cusps do not scale with the width)."""
    import re
    from .shapes_common import parse_els
    if verdict.startswith('CORR') or 'non-finite' in verdict or 'contour' in verdict:
        return False
    m = re.search(r'point \(([-0-9.e+]+), ([-0-9.e+]+)\)', verdict)
    if not m:
        return False
    q = (float(m.group(1)), float(m.group(2)))
    els, w, join, cap, ml, off, pat, tol = case.meta['args'][:8]
    src_els = [tuple([e[0]] + [tuple(p) for p in e[1:]]) for e in els]
    if pat:
        d = outs['I'][1]
        src_els = parse_els(d[3:] if d.startswith('ok ') else d)
    hw = w / 2
    segs = O.path_segments(src_els)
    allp = [p for seg in segs for p in seg]
    whole = max(max(p[0] for p in allp) - min(p[0] for p in allp), max(p[1] for p in allp) - min(p[1] for p in allp))
    # a point left uncovered: the inverted piece of an offset (winding -1 wherever the radius of curvature is below the half width) cancels a neighbour -
    # no cusp needed; a point covered outside the bound: a spike, which needs the tangent to turn sharply
    min_turn = 0.0 if 'has winding 0 there' in verdict else None
    for seg in segs:
        if len(seg) > 2 and tight_points([seg], hw, min_turn):
            diam = max(math.hypot(a[0] - b[0], a[1] - b[1]) for a in seg for b in seg)
            if seg_nearest(q, seg)[0] <= max(8 * hw + 3 * tol, 0.5 * diam, 0.2 * whole):
                return True
    return False


KNOWN_CLASSES = {'tight_curvature': tight_curvature}
