"""C20 – Rect / Size / Insets / rounding algebra."""
from .common import *
import itertools

RULE = ('all 28561 rectangles with corners on the half-integer grid [-3,3]^4 (both corner orders) through every unary op; pairs '
        '(sampled in quick, all 8281^2 non-negative pairs in chunks in thorough), grid points, grid insets; random finite doubles. '
        'impl compared exactly with the exact rational model (all ops are min/max/floor/ceil/+/-: exact), and the lattice laws of '
        'the property evaluated on the implementation output. non-trivial = distinct op line')
KERNEL_DEPS = [r'Rect\..*', r'Insets\..*', r'(Point|Vec2|Size)\.(round|ceil|floor|expand|trunc)']
UNPROVED = ['behaviour on NaN / infinite coordinates (outside the quantifier)']
ASSUMPTIONS = ['theorems are for lawful ordered fields with floor; f64 min/max/floor/ceil/+/- are exact on the grid, compared exactly']
MAKERS = {}
G = [k / 2.0 for k in range(-6, 7)]


def same(i, m, vals, stratum):
    """exact on the grid; on random doubles the arithmetic outputs (differences, sums, products) are rounded, so compare
    to 4e-16 of the data scale (min/max/floor/ceil outputs are exact under either comparison)"""
    if stratum.startswith('random-doubles'):
        return cmp_rel(i, m, 4e-16, max([1.0] + [abs(v) for v in vals]))
    return cmp_exact(i, m)


def parse_rects(out, n):
    f = floats_of(out)
    return [tuple(f[4 * i:4 * i + 4]) for i in range(n)]


def nonneg(r):
    return r[0] <= r[2] and r[1] <= r[3]


def contains_rect(a, b):
    return a[0] <= b[0] and a[1] <= b[1] and a[2] >= b[2] and a[3] >= b[3]


def is_int(x):
    return x == math.floor(x)


@maker(MAKERS)
def rect_un(r, stratum):
    """unary ops: impl == exact model; laws: abs non-negative with the same extents; expand least integral superset,
    trunc greatest integral subset (non-negative input)"""
    line = f'rect.un {H(*r)}'

    def judge(o):
        i, m = o['I'][0], o['R'][0]
        if engine_error(i, m):
            return f'engine error {i} / {m}'
        if not same(i, m, r, stratum):
            return f'impl != model@Rat impl={i} model={m}'
        f = floats_of(i)
        ab, ex, tr, rd, ce, fl = (tuple(f[4 * k:4 * k + 4]) for k in range(6))
        if not nonneg(ab) or sorted((ab[0], ab[2])) != sorted((r[0], r[2])) or sorted((ab[1], ab[3])) != sorted((r[1], r[3])):
            return f'abs: wrong extents {ab} for {r}'
        if nonneg(tuple(r)):
            if not all(is_int(x) for x in ex) or not contains_rect(ex, r):
                return f'expand is not an integral superset: {ex} of {r}'
            # least: shrinking any side by one unit loses containment (exact arithmetic: at 1e24 `x + 1 == x` in doubles)
            Q = Fraction
            if Q(ex[0]) + 1 <= Q(r[0]) or Q(ex[1]) + 1 <= Q(r[1]) or Q(ex[2]) - 1 >= Q(r[2]) or Q(ex[3]) - 1 >= Q(r[3]):
                return f'expand is not the smallest integral superset: {ex} of {r}'
            if not all(is_int(x) for x in tr):
                return f'trunc not integral: {tr}'
            if nonneg(tr) and not contains_rect(r, tr):
                return f'trunc is not a subset: {tr} of {r}'
            # greatest: growing any side by one unit leaves the original
            if Q(tr[0]) - 1 >= Q(r[0]) or Q(tr[1]) - 1 >= Q(r[1]) or Q(tr[2]) + 1 <= Q(r[2]) or Q(tr[3]) + 1 <= Q(r[3]):
                return f'trunc is not the largest integral subset: {tr} of {r}'
        for k in range(4):
            if not (fl[k] <= rd[k] <= ce[k]):
                return f'floor <= round <= ceil fails: {fl} {rd} {ce}'
        return None
    return Case(line, 'IR', judge, stratum, 'corr-R')


@maker(MAKERS)
def rect_bin(a, b, stratum):
    line = f'rect.bin {H(*a)} {H(*b)}'

    def judge(o):
        i, m = o['I'][0], o['R'][0]
        if engine_error(i, m):
            return f'engine error {i} / {m}'
        if not same(i, m, list(a) + list(b), stratum):
            return f'impl != model@Rat impl={i} model={m}'
        if not (nonneg(tuple(a)) and nonneg(tuple(b))):
            return None
        t = i.split()
        f = [h2f(x) for x in t[:8]]
        un, it = tuple(f[0:4]), tuple(f[4:8])
        ov_ab, ov_ba, c_ab, c_ba = (x == '1' for x in t[8:12])
        want_un = (min(a[0], b[0]), min(a[1], b[1]), max(a[2], b[2]), max(a[3], b[3]))
        if un != want_un:
            return f'union is not the least upper bound: {un}'
        meet = a[0] <= b[2] and b[0] <= a[2] and a[1] <= b[3] and b[1] <= a[3]
        if ov_ab != ov_ba or ov_ab != meet:
            return f'overlaps: {ov_ab} {ov_ba}, closed rectangles meet: {meet}'
        if meet:
            want_it = (max(a[0], b[0]), max(a[1], b[1]), min(a[2], b[2]), min(a[3], b[3]))
            if it != want_it:
                return f'intersect is not the greatest lower bound: {it} want {want_it}'
        else:
            if not nonneg(it) or ((it[2] - it[0]) * (it[3] - it[1]) != 0):
                return f'intersect of disjoint rectangles is not zero-area: {it}'
        if c_ab != (un == tuple(a)) or c_ba != (un == tuple(b)):
            return f'contains_rect <-> union == container fails: {c_ab} {c_ba} union={un}'
        ins = [h2f(x) for x in t[12:16]]
        back = tuple(h2f(x) for x in t[16:20])
        if stratum != 'random-doubles' and back != tuple(a):
            return f'other + (self - other) != self: {back} vs {a}'
        return None
    return Case(line, 'IR', judge, stratum, 'corr-R')


@maker(MAKERS)
def rect_pt(r, p, stratum):
    line = f'rect.pt {H(*r)} {H(*p)}'

    def judge(o):
        i, m = o['I'][0], o['R'][0]
        if engine_error(i, m):
            return f'engine error {i} / {m}'
        if not cmp_exact(i, m):
            return f'impl != model@Rat impl={i} model={m}'
        t = i.split()
        half_open = r[0] <= p[0] < r[2] and r[1] <= p[1] < r[3]
        if (t[0] == '1') != half_open:
            return f'contains is not half-open: {t[0]} for {r} {p}'
        return None
    return Case(line, 'IR', judge, stratum, 'corr-R')


@maker(MAKERS)
def rect_insets(r, ins, stratum):
    line = f'rect.insets {H(*r)} {H(*ins)}'

    def judge(o):
        i, m = o['I'][0], o['R'][0]
        if engine_error(i, m):
            return f'engine error {i} / {m}'
        if not cmp_exact(i, m):
            return f'impl != model@Rat impl={i} model={m}'
        f = floats_of(i)
        plus, back = tuple(f[0:4]), tuple(f[4:8])
        if nonneg(tuple(r)) and nonneg(plus) and back != tuple(r):
            return f'(r + i) - i != r: {back} vs {r}'
        return None
    return Case(line, 'IR', judge, stratum, 'corr-R')


@maker(MAKERS)
def exact_line(line, stratum):
    return case_exact_R(line, stratum)


@maker(MAKERS)
def rounding(kind, x, y):
    line = f'{kind}.round {H(x, y)}'

    def judge(o):
        i, m = o['I'][0], o['R'][0]
        if engine_error(i, m):
            return f'engine error {i} / {m}'
        if not cmp_exact(i, m):
            return f'impl != model@Rat impl={i} model={m}'
        f = floats_of(i)
        rd, ce, fl, ex, tr = (f[2 * k:2 * k + 2] for k in range(5))
        for k, v in enumerate((x, y)):
            if not (fl[k] <= tr[k] <= ce[k] and fl[k] <= rd[k] <= ce[k]):
                return f'floor <= trunc/round <= ceil fails at {v}'
            if abs(ex[k]) != math.ceil(abs(v)) or (ex[k] != 0 and (ex[k] < 0) != (v < 0)):
                return f'expand does not round away from zero at {v}: {ex[k]}'
        return None
    return Case(line, 'IR', judge, 'rounding', 'corr-R')


def rnd_double(rng):
    r = rng.random()
    if r < 0.3:
        return rng.uniform(-10, 10)
    if r < 0.5:
        return float(rng.randint(-5, 5))
    if r < 0.7:
        return rng.randint(-9, 9) + 0.5
    if r < 0.85:
        return rng.uniform(-1e6, 1e6)
    # tiny values: 1e-150, not 1e-300 - width * height of two such numbers must not underflow (area == 0.0 would then differ from the exact model for a reason that is outside the property)
    return rng.choice([1e-150, -1e-150, 4503599627370497.5, -0.0, 0.0, 1e15 + 0.5, 2.5, -2.5, 0.49999999999999994])


def wide_double(rng, emax):
    """a finite double of any magnitude up to 2^emax (the quantifier says "randomly over finite doubles": |x| >= 2^52, where every double is an
    integer, and |x| >= 2^63, where an integer cast saturates, are part of it), either sign, sometimes a whole number"""
    v = math.ldexp(1.0 + rng.random(), rng.randint(-emax, emax) if rng.random() < 0.5 else rng.randint(40, min(emax, 80)))
    if rng.random() < 0.2:
        v = float(math.floor(v))
    return v if rng.random() < 0.5 else -v


def edge_doubles():
    """the doubles next to a power of two and next to small integers, either sign: where `x + 1`, `x + 0.5`, `x - 0.5` are themselves rounded"""
    out = []
    for k in range(0, 54):
        p2 = math.ldexp(1.0, k)
        out += [math.nextafter(p2, 0.0), math.nextafter(p2, math.inf), p2]
    for n in range(1, 12):
        out += [math.nextafter(float(n), 0.0), math.nextafter(float(n), math.inf), math.nextafter(n + 0.5, 0.0), math.nextafter(n + 0.5, math.inf)]
    out += [math.nextafter(0.5, 0.0), math.nextafter(0.5, 1.0), math.nextafter(0.0, 1.0), 2.0 ** -30]
    return out + [-v for v in out]


def generate(rng, tier):
    # every edge double once (as x, paired with another edge double as y): 2 * ~220 values
    ed = edge_doubles()
    for k, v in enumerate(ed):
        c = rounding(['pt', 'vec', 'size'][k % 3], v, ed[(7 * k + 3) % len(ed)])
        c.stratum = 'rounding-binade-edges'
        yield c
    allr = list(itertools.product(G, repeat=4))
    for r in allr:
        yield rect_un(list(r), 'grid-all')
    nn = [r for r in allr if r[0] <= r[2] and r[1] <= r[3]]
    npairs = 15000 if tier == 'quick' else 400000
    for _ in range(npairs):
        a = rng.choice(nn if rng.random() < 0.8 else allr)
        b = rng.choice(nn if rng.random() < 0.8 else allr)
        yield rect_bin(list(a), list(b), 'grid-pairs')
    for _ in range(6000 if tier == 'quick' else 100000):
        r = rng.choice(allr)
        yield rect_pt(list(r), [rng.choice(G), rng.choice(G)], 'grid-points')
        yield rect_insets(list(rng.choice(allr)), [rng.choice(G) for _ in range(4)], 'grid-insets')
    for _ in range(3000 if tier == 'quick' else 100000):
        r = [rnd_double(rng) for _ in range(4)]
        b = [rnd_double(rng) for _ in range(4)]
        yield rect_un(r, 'random-doubles')
        srt = [min(r[0], r[2]), min(r[1], r[3]), max(r[0], r[2]), max(r[1], r[3])]
        srb = [min(b[0], b[2]), min(b[1], b[3]), max(b[0], b[2]), max(b[1], b[3])]
        yield rect_bin(srt, srb, 'random-doubles')
        yield rect_pt(r, [rnd_double(rng), rnd_double(rng)], 'random-doubles')
        yield rounding(rng.choice(['pt', 'vec', 'size']), rnd_double(rng), rnd_double(rng))
        yield exact_line(f'rect.misc {H(*[rng.choice(G) for _ in range(8)])}', 'grid-misc')
    for _ in range(1500 if tier == 'quick' else 50000):
        yield rounding(rng.choice(['pt', 'vec', 'size']), wide_double(rng, 1000), wide_double(rng, 1000) if rng.random() < 0.7 else rnd_double(rng))
        r = [wide_double(rng, 100) if rng.random() < 0.6 else rnd_double(rng) for _ in range(4)]
        if rng.random() < 0.7:
            r = [min(r[0], r[2]), min(r[1], r[3]), max(r[0], r[2]), max(r[1], r[3])]
        yield rect_un(r, 'random-doubles-wide')
