"""C11 – closed-form shape queries agree with the shape's own outline."""
from .shapes_common import *

RULE = ('Rect (any corner order; boundary points on a grid included), RoundedRect (any radii, clamped), Circle, Ellipse (any radii/rotation, from_affine '
        'with reflections/skews), Triangle (both orientations, incl. near-degenerate), CircleSegment (0<=inner<=outer, any start angle, '
        'sweep in (0,2pi], ranges crossing +-pi) x query points (40% near the boundary band, on rows/columns of special points) x accuracies 1e-10..1. '
        'On the implementation: closed-form area / perimeter / bounding box / winding vs the same quantities of the shape\'s own outline at fine '
        'tolerance, and vs the ideal shape computed independently (membership with a 1e-6*scale guard band). Closed forms also compared with the '
        'Lean model (Rect, Triangle: exact rational model; others: Float model). Ellipse::perimeter alone (C11E): radii 1e-3..1e4 x aspect 1..1e6 (log-uniform) x any '
        'rotation x accuracy 1e-12..1 x size, accuracies equal/adjacent to the Kummer remainder bound (both sides of the series/AGM switch), zero radii, circles: '
        'implementation == Float model bit for bit. non-trivial = distinct (shape, point set)')
KERNEL_DEPS = [r'Rect\.(winding|area|perimeter|bounding_box|abs|center|width|height)', r'Affine\.(inverse|mul_Point|determinant|mul_Affine)',
               r'K2:Triangle\..*', r'K2:Circle\..*', r'K2:CircleSegment\.(area|perimeter|winding)', r'K2:Ellipse\.(area|winding|bounding_box|radii)', r'K2:Affine\.svd']
UNPROVED = ['agreement of circle/ellipse/rounded-rect closed forms with the Bezier OUTLINE within tolerance (needs the C10 stretch theorem): compared',
            'ellipse perimeter: that the Kummer series / the AGM formula sum to the true perimeter, and the error bound |result - perimeter| <= accuracy of the AGM '
            'branch (false as the code stands: it divides by the current a_n instead of the AGM limit, see Proofs/C11E.lean): compared against the outline length; '
            'proved (C11E): AGM invariants and contraction, pass bound, tail bound / bracket of the returned sum, Kummer symmetry / circle / scaling / remainder constant']
ASSUMPTIONS = ['Rect / Triangle / RoundedRect closed forms are proved equal to the ray-casting winding of the outline (polygons) resp. ideal-set membership']
MAKERS = {}
HEAVY_JUDGE = True


def ideal_inside(kind, p, q, margin):
    """True / False / None (within margin of the boundary)"""
    if kind == 'circle':
        d = circle_sd((p[0], p[1]), p[2], q)
    elif kind == 'ellipse':
        fr = Frame(p[0], p[1], p[2], p[3], p[4])
        lv = ellipse_level(fr, q)
        d = lv * min(abs(p[2]), abs(p[3])) if abs(lv) * min(abs(p[2]), abs(p[3])) > margin else 0.0
    elif kind == 'rect':
        x0, y0, x1, y1 = min(p[0], p[2]), min(p[1], p[3]), max(p[0], p[2]), max(p[1], p[3])
        d = min(q[0] - x0, x1 - q[0], q[1] - y0, y1 - q[1])
    elif kind == 'rrect':
        x0, y0, x1, y1 = min(p[0], p[2]), min(p[1], p[3]), max(p[0], p[2]), max(p[1], p[3])
        m = min(x1 - x0, y1 - y0) / 2
        d = rrect_sd((x0, y0, x1, y1), tuple(min(abs(r), m) for r in p[4:8]), q)
    elif kind == 'tri':
        d = tri_sd((p[0], p[1]), (p[2], p[3]), (p[4], p[5]), q)
    elif kind == 'cseg':
        return cseg_inside((p[0], p[1]), p[2], p[3], p[4], p[5], q, margin)
    else:
        return None
    if abs(d) <= margin:
        return None
    return d > 0


@maker(MAKERS)
def full(kind, params, tol, acc, pts, stratum):
    flat = [c for q in pts for c in q]
    line = f'shape.full {shape_line(kind, params)} {H(tol, acc)} {len(pts)} {H(*flat)}'
    sc = max([1e-3] + [abs(x) for x in params[2:]]) if kind in ('circle', 'ellipse', 'cseg') else max(1e-3, max(params[:4]) - min(params[:4]), *(abs(params[k] - params[k - 2]) for k in range(2, min(len(params), 6))))
    if stratum.endswith('-scaled'):
        # tiny copies (2^-36): the slack must scale with the shape, not stop at 1e-3 (every query point would count as "on the boundary")
        sc = max(max(params[:4]) - min(params[:4]), *(abs(params[k] - params[k - 2]) for k in range(2, min(len(params), 6))))

    def judge(o):
        i = o['I'][0]
        if engine_error(i):
            return 'engine error ' + i
        a, b, ws, wo = i.split(' | ')
        area, per, *bb = floats_of(a)
        oarea, oper, *obb = floats_of(b)
        ws = [int(x) for x in ws.split()]
        wo = [int(x) for x in wo.split()]
        margin = 1e-6 * sc + 4 * tol
        if any(math.isnan(x) for x in (area, per, *bb)):
            return f'closed form is NaN: {a}'
        # orientation of the outline (sign of its area)
        orient = 1 if oarea >= 0 else -1
        for q, w_cf, w_out in zip(pts, ws, wo):
            ins = ideal_inside(kind, params, q, margin)
            if ins is None:
                continue
            want = 1 if ins else 0
            if abs(w_cf) != want:
                return f'closed-form winding {w_cf} at {q} but the point is {"inside" if ins else "outside"} the ideal shape'
            if abs(w_out) != want:
                return f'outline winding {w_out} at {q} but the point is {"inside" if ins else "outside"} the ideal shape'
            if w_cf != w_out and kind in ('rect', 'tri'):
                return f'closed-form winding {w_cf} != outline winding {w_out} at {q} (sign)'
        # area / bbox / perimeter against the outline
        tolA = 1e-6 * sc * sc + 8 * tol * max(sc, abs(oper))
        if kind in ('circle', 'ellipse'):
            if abs(abs(area) - abs(oarea)) > tolA:
                return f'closed-form area {area} vs outline area {oarea}'
        elif abs(area - oarea) > tolA:
            return f'closed-form area {area} vs outline area {oarea}'
        if kind != 'cseg':     # CircleSegment::bounding_box is documented as not tight
            for g, w in zip(bb, obb):
                if abs(g - w) > 1e-6 * sc + 2 * tol:
                    return f'closed-form bounding box {bb} vs outline bounding box {obb}'
        if abs(per - oper) > acc + 1e-6 * sc + 16 * tol:
            return f'closed-form perimeter {per} (accuracy {acc}) vs outline length {oper}'
        return None
    return Case(line, 'I', judge, stratum, 'oracle')


@maker(MAKERS)
def rect_tiling(xs, ys, q):
    """a plane tiled by rectangles assigns every point to exactly one tile (half-open rule), boundary points included"""
    lines = []
    for i in range(len(xs) - 1):
        for j in range(len(ys) - 1):
            lines.append(f'shape.query rect {H(xs[i], ys[j], xs[i + 1], ys[j + 1])} 1 {H(*q)}')

    def judge(o):
        I, R = o['I'], o['R']
        tot = 0
        for a, b in zip(I, R):
            if engine_error(a, b):
                return f'engine error {a} / {b}'
            if not cmp_exact(a, b):
                return f'impl != model@Rat impl={a} model={b}'
            tot += abs(int(a.split(' | ')[2]))
        inside = xs[0] <= q[0] < xs[-1] and ys[0] <= q[1] < ys[-1]
        if tot != (1 if inside else 0):
            return f'point {q} belongs to {tot} tiles of the tiling {xs} x {ys}'
        return None
    return Case(lines, 'IR', judge, 'rect-tiling', 'corr-R')


@maker(MAKERS)
def closed_model(kind, params, pts, exact):
    flat = [c for q in pts for c in q]
    line = f'shape.query {shape_line(kind, params)} {len(pts)} {H(*flat)}'
    sc = max([1.0] + [abs(x) for x in params])

    def judge(o):
        i, m = o['I'][0], o['R' if exact else 'F'][0]
        if engine_error(i, m):
            return f'engine error {i} / {m}'
        ia, ib, iw = i.split(' | ')
        ma, mb, mw = m.split(' | ')
        if not cmp_rel(ia + ' ' + ib, ma + ' ' + mb, 1e-12, sc * sc):
            return f'impl != model (area/bbox) impl={i} model={m}'
        if iw != mw:
            # windings may legitimately differ within rounding of the boundary for the Float model
            if exact:
                return f'impl != model@Rat (winding) impl={iw} model={mw}'
            bad = [k for k, (x, y) in enumerate(zip(iw.split(), mw.split())) if x != y and ideal_inside(kind, params, pts[k], 1e-9 * sc) is not None]
            if bad:
                return f'CORR impl != model@Float (winding) at points {bad}: impl={iw} model={mw}'
        return None
    return Case(line, 'IR' if exact else 'IF', judge, f'model-{kind}', 'corr-R' if exact else 'corr-F')


def _py_radii0(rx, ry):
    """`Ellipse::new(c, (rx, ry), 0.0).radii()` replayed in binary64 (rotation 0: `Affine::svd` of diag(|rx|, |ry|))"""
    a2, d2 = abs(rx) * abs(rx), abs(ry) * abs(ry)
    s1 = a2 + 0.0 + 0.0 + d2
    t = a2 - 0.0 + 0.0 - d2
    s2 = math.sqrt(t * t + 4.0 * (0.0 * 0.0))
    return math.sqrt(0.5 * (s1 + s2)), math.sqrt(0.5 * (s1 - s2))


def _py_kummer_range(x, y):
    """`kummer_elliptic_perimeter_range` replayed in binary64 (`powi(7)` = (h*h2)*h4)"""
    q = (x - y) / (x + y)
    h = q * q
    h2 = h * h
    h4 = h2 * h2
    return math.pi * 0.00101416479131503 * ((h * h2) * h4) * (x + y)


@maker(MAKERS)
def ellperim_model(cx, cy, rx, ry, rot, acc, stratum):
    """`Ellipse::new((cx,cy),(rx,ry),rot).perimeter(acc)`: implementation == Float model bit for bit (the whole path: svd radii, finiteness
    test, degenerate branch, Kummer series and its remainder bound, the AGM loop and its stopping rule).  For rotation 0 the exact (Rat)
    evaluation of the same algorithm is compared as well: it may leave the loop one pass earlier/later or take the other side of the
    Kummer/AGM switch, so the two values are within 1.1 x accuracy (+ 1e-9 x size for the rounding of the radii in `svd`)."""
    line = f'ellipse.perimeter_full {H(cx, cy, rx, ry, rot, acc)}'
    exact = (rot == 0.0)
    size = max(abs(rx), abs(ry))

    def judge(o):
        i, f = o['I'][0], o['F'][0]
        if engine_error(i, f):
            return f'engine error {i} / {f}'
        if not cmp_exact(i, f):
            return f'CORR impl != model@Float (ellipse perimeter) impl={i} model={f}'
        if exact:
            r = o['R'][0]
            if engine_error(r):
                return f'engine error model@Rat {r}'
            vi, vr = h2f(i), h2f(r)
            if math.isnan(vi) or abs(vi - vr) > 1.1 * acc + 1e-9 * size:
                return f'ellipse perimeter: impl {vi} vs exact evaluation of the same algorithm {vr} (accuracy {acc})'
        return None
    return Case(line, 'IFR' if exact else 'IF', judge, stratum, 'corr-F')


def ellperim_cases(rng, n):
    """radii 1e-3..1e4, aspect 1..1e6 (log-uniform), any rotation, accuracy 1e-12..1 x size; the Kummer/AGM switch; degenerate radii"""
    for _ in range(n):
        big = 10.0 ** rng.uniform(-3, 4)
        asp = 10.0 ** (rng.uniform(0, 6) if rng.random() < 0.7 else rng.uniform(0, 1.5))
        small = big / asp
        rx, ry = (big, small) if rng.random() < 0.5 else (small, big)
        if rng.random() < 0.2:
            rx, ry = rng.choice([(rx, ry), (-rx, ry), (rx, -ry)])
        rot = rng.choice([0.0, rng.uniform(-4, 4), rng.uniform(-4, 4), math.pi / 2, 1.0])
        acc = 10.0 ** rng.uniform(-12, 0) * big
        c = (rng.uniform(-10, 10), rng.uniform(-10, 10))
        k = rng.random()
        st = 'ellperim-generic'
        if k < 0.04:
            rx, st = 0.0, 'ellperim-degenerate'
        elif k < 0.08:
            ry, st = 0.0, 'ellperim-degenerate'
        elif k < 0.09:
            rx, ry, st = 0.0, 0.0, 'ellperim-degenerate'
        elif k < 0.12:
            ry, st = rx, 'ellperim-circle'
        elif k < 0.4:
            # accuracy equal / adjacent to the remainder bound of the radii the crate will see: both sides of `range <= accuracy`
            X, Y = _py_radii0(rx, ry)
            r = _py_kummer_range(X, Y) if Y > 0 else 0.0
            if r >= 1e-12 * big:       # below that the switch lies outside the accuracy range of the property
                rot, st = 0.0, 'ellperim-switch'
                acc = rng.choice([r, math.nextafter(r, 0.0), math.nextafter(r, math.inf), r * (1 + 1e-15), r * (1 - 1e-15), r * (1 + 1e-3), r * (1 - 1e-3)])
        yield ellperim_model(c[0], c[1], rx, ry, rot, acc, st)


def near_boundary_points(rng, kind, p, sc, n):
    pts = []
    for _ in range(n):
        r = rng.random()
        if kind in ('circle', 'ellipse', 'cseg'):
            cx, cy = p[0], p[1]
            rad = abs(p[2])
            a = rng.uniform(-math.pi, math.pi)
            if kind == 'cseg' and rng.random() < 0.5:
                a = p[4] + rng.choice([0.0, 1.0]) * p[5] + rng.uniform(-0.05, 0.05)
            k = rng.choice([0.0, 0.5, 0.9, 0.999, 1.001, 1.1, 2.0]) if r < 0.7 else rng.uniform(0, 2)
            if kind == 'cseg' and rng.random() < 0.4:
                rad = abs(p[3])
            if kind == 'ellipse':
                u, v = abs(p[2]) * k * math.cos(a), abs(p[3]) * k * math.sin(a)
                pts.append((cx + u * math.cos(p[4]) - v * math.sin(p[4]), cy + u * math.sin(p[4]) + v * math.cos(p[4])))
            else:
                pts.append((cx + rad * k * math.cos(a), cy + rad * k * math.sin(a)))
        else:
            xs = sorted(p[0:len(p):2][:3]) if kind == 'tri' else sorted([p[0], p[2]])
            ys = sorted(p[1:len(p):2][:3]) if kind == 'tri' else sorted([p[1], p[3]])
            if r < 0.4:
                pts.append((rng.choice(xs) + rng.choice([0.0, 1e-3, -1e-3, 0.1, -0.1]) * sc, rng.uniform(ys[0] - 0.2 * sc, ys[-1] + 0.2 * sc)))
            elif r < 0.7:
                pts.append((rng.uniform(xs[0] - 0.2 * sc, xs[-1] + 0.2 * sc), rng.choice(ys) + rng.choice([0.0, 1e-3, -1e-3, 0.1, -0.1]) * sc))
            else:
                pts.append((rng.uniform(xs[0] - 0.3 * sc, xs[-1] + 0.3 * sc), rng.uniform(ys[0] - 0.3 * sc, ys[-1] + 0.3 * sc)))
    return pts


def generate(rng, tier):
    n = 100 if tier == 'quick' else 4000
    for _ in range(n):
        c = [rng.uniform(-10, 10), rng.uniform(-10, 10)]
        r = 10.0 ** rng.uniform(-3, 4)
        acc = 10.0 ** rng.uniform(-10, 0)
        # circle
        p = c + [r]
        pts = near_boundary_points(rng, 'circle', p, r, 8)
        yield full('circle', p, 1e-9 * r, acc * r, pts, 'circle')
        yield closed_model('circle', p, pts, False)
        # ellipse (aspect to 1e4 occasionally)
        asp = 10.0 ** (rng.uniform(-1, 1) if rng.random() < 0.8 else rng.uniform(-4, 4))
        p = c + [r, r * asp, rng.uniform(-4, 4)]
        pts = near_boundary_points(rng, 'ellipse', p, max(r, r * asp), 8)
        yield full('ellipse', p, 1e-9 * max(r, r * asp), acc * max(r, r * asp), pts, 'ellipse')
        yield closed_model('ellipse', p, pts, False)
        # rect (any corner order) and rounded rect
        w, h = 10.0 ** rng.uniform(-1, 3), 10.0 ** rng.uniform(-1, 3)
        x0, y0 = rng.uniform(-10, 10), rng.uniform(-10, 10)
        corners = rng.choice([[x0, y0, x0 + w, y0 + h], [x0 + w, y0 + h, x0, y0], [x0 + w, y0, x0, y0 + h], [x0, y0 + h, x0 + w, y0]])
        pts = near_boundary_points(rng, 'rect', corners, max(w, h), 8)
        yield full('rect', corners, 0.1, acc, pts, 'rect')
        yield closed_model('rect', corners, pts, True)
        rad = [rng.choice([0.0, rng.uniform(0, 1) * min(w, h), rng.uniform(0, 2) * max(w, h), -rng.uniform(0, 0.5) * min(w, h)]) for _ in range(4)]
        prr = corners + rad
        pts = near_boundary_points(rng, 'rect', corners, max(w, h), 10)
        # query points in the corner squares (between the sharp corner and the deepest possible rounding): where the corner radii decide
        xa, xb, ya, yb = min(corners[0], corners[2]), max(corners[0], corners[2]), min(corners[1], corners[3]), max(corners[1], corners[3])
        mm = min(w, h) / 2
        for (cx_, sx_) in ((xa, 1.0), (xb, -1.0)):
            for (cy_, sy_) in ((ya, 1.0), (yb, -1.0)):
                f_ = rng.choice([0.02, 0.05, 0.12, 0.25])
                pts.append([cx_ + sx_ * f_ * mm * rng.uniform(0.5, 1.5), cy_ + sy_ * f_ * mm * rng.uniform(0.5, 1.5)])
        # decisive points: on the diagonal of each corner square between the arc of the corner's OWN radius and the arc any OTHER corner's radius would
        # give (a point at diagonal offset d is inside iff d >= (1 - 1/sqrt 2) r): a query that tells "the wrong corner radius was used"
        eff = [min(abs(r_), mm) for r_ in rad]                     # top_left, top_right, bottom_right, bottom_left as the crate stores them
        cs_ = [(xa, ya, 1.0, 1.0), (xb, ya, -1.0, 1.0), (xb, yb, -1.0, -1.0), (xa, yb, 1.0, -1.0)]
        for ci_, (cx_, cy_, sx_, sy_) in enumerate(cs_):
            for ro_ in eff:
                if abs(ro_ - eff[ci_]) > 1e-2 * mm:
                    d_ = 0.2928932188134524 * 0.5 * (ro_ + eff[ci_])
                    pts.append([cx_ + sx_ * d_, cy_ + sy_ * d_])
        yield full('rrect', prr, 1e-9 * min(w, h), acc, pts, 'rounded-rect')
        yield closed_model('rrect', prr, pts, False)
        # the same shape and query points scaled by an exact power of two (nanometre / astronomical units): every closed form must scale with it
        k2 = 2.0 ** rng.choice([-36, -30, 30])
        o2 = (corners[0], corners[1])
        sc2 = lambda x, y: ((x - o2[0]) * k2, (y - o2[1]) * k2)
        c2 = list(sc2(corners[0], corners[1]) + sc2(corners[2], corners[3]))
        pts2 = [list(sc2(q[0], q[1])) for q in pts]
        yield full('rrect', c2 + [r * k2 for r in rad], 1e-9 * min(w, h) * k2, acc * k2, pts2, 'rounded-rect-scaled')
        # triangle, both orientations, sometimes thin
        t = [rng.uniform(-10, 10) for _ in range(6)]
        if rng.random() < 0.2:
            t[4], t[5] = t[0] + 0.5 * (t[2] - t[0]) + rng.uniform(-1e-3, 1e-3), t[1] + 0.5 * (t[3] - t[1])
        tsc = max(t) - min(t)
        pts = near_boundary_points(rng, 'tri', t, tsc, 8)
        yield full('tri', t, 0.1, acc, pts, 'triangle')
        yield closed_model('tri', t, pts, True)
        # circle segment
        outer = 10.0 ** rng.uniform(-2, 3)
        inner = outer * rng.choice([0.0, rng.uniform(0, 1), rng.uniform(0, 1), 1.0 - 1e-3])    # the quantifier is 0 <= inner <= outer
        start = rng.choice([rng.uniform(-math.pi, math.pi), rng.uniform(-4 * math.pi, 4 * math.pi), 3.0, -3.0])
        sweep = rng.uniform(1e-2, 2 * math.pi) if rng.random() < 0.85 else 2 * math.pi
        p = c + [outer, inner, start, sweep]
        pts = near_boundary_points(rng, 'cseg', p, max(outer, inner), 10)
        yield full('cseg', p, 1e-9 * max(outer, inner), acc, pts, 'circle-segment')
        yield closed_model('cseg', p, pts, False)
        # rectangle tiling with boundary points
        xs = sorted({rng.randint(-8, 8) / 2.0 for _ in range(4)})
        ys = sorted({rng.randint(-8, 8) / 2.0 for _ in range(4)})
        if len(xs) > 1 and len(ys) > 1:
            yield rect_tiling(xs, ys, [rng.choice(xs + [rng.uniform(-5, 5)]), rng.choice(ys + [rng.uniform(-5, 5)])])
    # ellipses from affine maps with reflections / skews
    for _ in range(n // 2):
        a = [rng.uniform(-3, 3) for _ in range(6)]
        if abs(a[0] * a[3] - a[1] * a[2]) < 0.05:
            continue
        pts = [(a[4] + rng.uniform(-4, 4), a[5] + rng.uniform(-4, 4)) for _ in range(8)]
        line = f'shape.full ellipse_aff {H(*a)} {H(1e-9, 1e-9)} {len(pts)} {H(*[c for q in pts for c in q])}'
        yield ellipse_affine(a, pts)
    # Ellipse::perimeter against its model (C11E)
    yield from ellperim_cases(rng, 600 if tier == 'quick' else 20000)


@maker(MAKERS)
def ellipse_affine(a, pts):
    line = f'shape.full ellipse_aff {H(*a)} {H(1e-9, 1e-9)} {len(pts)} {H(*[c for q in pts for c in q])}'
    det = a[0] * a[3] - a[1] * a[2]

    def judge(o):
        i = o['I'][0]
        if engine_error(i):
            return 'engine error ' + i
        x, y, ws, wo = i.split(' | ')
        area, per, *bb = floats_of(x)
        oarea, oper, *obb = floats_of(y)
        if abs(abs(area) - math.pi * abs(det)) > 1e-9 * (1 + abs(det)):
            return f'ellipse area {area} != pi*|det| = {math.pi * abs(det)}'
        if abs(abs(oarea) - abs(area)) > 1e-6 * (1 + abs(det)):
            return f'closed-form area {area} vs outline area {oarea}'
        for g, w in zip(bb, obb):
            if abs(g - w) > 1e-6 * (1 + max(abs(v) for v in a)):
                return f'closed-form bounding box {bb} vs outline bounding box {obb}'
        if abs(per - oper) > 1e-6 * (1 + abs(oper)):
            return f'closed-form perimeter {per} vs outline length {oper}'
        for q, w_cf, w_out in zip(pts, ws.split(), wo.split()):
            # inverse image in the unit disc
            qx, qy = q[0] - a[4], q[1] - a[5]
            u, v = (a[3] * qx - a[2] * qy) / det, (-a[1] * qx + a[0] * qy) / det
            lv = 1 - math.hypot(u, v)
            if abs(lv) < 1e-6:
                continue
            want = 1 if lv > 0 else 0
            if abs(int(w_cf)) != want or abs(int(w_out)) != want:
                return f'winding at {q}: closed form {w_cf}, outline {w_out}, ideal membership {want}'
        return None
    return Case(line, 'I', judge, 'ellipse-from-affine', 'oracle')


def ellipse_perimeter_high_aspect(case, outs, verdict):
    """root cause (named in the property record itself): Ellipse::perimeter chooses between the Kummer series and the AGM iteration by a truncation
    bound that is slightly optimistic for very eccentric ellipses: above an aspect ratio of about 50 the result misses the requested accuracy by up
    to ~10 %.  The class: an ellipse with aspect ratio > 50 whose perimeter differs from the outline length by at most 1.25 x the accuracy."""
    import re
    if 'closed-form perimeter' not in verdict or case.meta.get('maker') != 'full':
        return False
    kind, params = case.meta['args'][0], case.meta['args'][1]
    if kind != 'ellipse':
        return False
    rx, ry = abs(params[2]), abs(params[3])
    if min(rx, ry) <= 0 or max(rx, ry) / min(rx, ry) <= 50:
        return False
    m = re.search(r'closed-form perimeter ([-0-9.e+]+) \(accuracy ([-0-9.e+]+)\) vs outline length ([-0-9.e+]+)', verdict)
    return bool(m) and abs(float(m.group(1)) - float(m.group(3))) <= 1.25 * float(m.group(2))


KNOWN_CLASSES = {'ellipse_perimeter_high_aspect': ellipse_perimeter_high_aspect}
