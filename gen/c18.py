"""C18 – curve fitting, offsetting and simplification stay near the source."""
from .common import *
from . import oracle as O
from .c04 import bez_eval, seg_nearest, smooth_chain, els_str
from fractions import Fraction as Fr

RULE = ('smooth sources: chains of 2..40 G1 cubics sampled (Hermite) from analytic curves (sine, spiral, ellipse) and single smooth cubics; offsets d with '
        '|d| * max curvature <= 0.8; accuracies 1e-4..1 (extent of order 10); both fitters (subdivide, optimised); simplification of paths with 1-3 sub-paths, '
        'open and closed, smooth stretches separated by corners. Oracle on the implementation output: one MoveTo followed by CurveTo only (fit), start/end at the '
        'source\'s end points, two-sided Hausdorff distance <= 2 * accuracy (dense samples of either curve against the exact nearest point of the other), offset: '
        '| dist(p, source cubic) - |d| | <= 2 * accuracy for samples p of the fitted path; simplify: same number of sub-paths, same closedness, same start/end points, '
        'corners kept as vertices, two-sided distance <= 2 * accuracy. moment_integrals: implementation vs exact rational model (kernel, regenerated) and vs exact '
        'integrals of the Bernstein polynomials. PathSeg::tangents through the corner test: M a L p0 <quadratic/cubic with coincident (or 1e-9 apart) end points, control arms zero / 1e-9..2e-6 / 1e-3 / 1> L b, '
        'crate vs model skeleton exactly, model tangents finite and zero only if all control points coincide. non-trivial = distinct op line')
KERNEL_DEPS = [r'momentIntegrals', r'CubicOffset\..*', r'CubicBez\.(eval|deriv|subsegment)', r'QuadBez\.eval']
UNPROVED = ['every accuracy claim: the fitter accepts a candidate on an APPROXIMATE error estimate (20 ray casts) - no theorem exists; decided by the distance oracle only',
            'simplify_bezpath structure (corner detection, prefix sums): compared on the implementation only, not modelled']
ASSUMPTIONS = ['"about the requested accuracy (factor two)": the oracle allows 2 * accuracy + 1e-9 * extent']
MAKERS = {}
HEAVY_JUDGE = True


def bbox_of(seg):
    xs = [p[0] for p in seg]
    ys = [p[1] for p in seg]
    return (min(xs), min(ys), max(xs), max(ys))


def path_dist(q, segs, boxes):
    """distance from q to the nearest point of a list of segments (bounding-box pruning)"""
    order = sorted(range(len(segs)), key=lambda k: max(boxes[k][0] - q[0], 0, q[0] - boxes[k][2]) ** 2 + max(boxes[k][1] - q[1], 0, q[1] - boxes[k][3]) ** 2)
    best = float('inf')
    for k in order:
        b = boxes[k]
        lb = math.hypot(max(b[0] - q[0], 0, q[0] - b[2]), max(b[1] - q[1], 0, q[1] - b[3]))
        if lb >= best:
            break
        d = seg_nearest(q, segs[k])[0]
        if d < best:
            best = d
    return best


def samples(segs, n):
    out = []
    for s in segs:
        for i in range(n + 1):
            out.append(bez_eval(s, i / n))
    return out


def hausdorff_two_sided(a_segs, b_segs, limit, what_a, what_b, n=10):
    ba = [bbox_of(s) for s in a_segs]
    bb = [bbox_of(s) for s in b_segs]
    for q in samples(a_segs, n):
        d = path_dist(q, b_segs, bb)
        if d > limit:
            return f'point {q} of the {what_a} is {d:.6g} from the {what_b} (allowed {limit:.6g})'
    for q in samples(b_segs, n):
        d = path_dist(q, a_segs, ba)
        if d > limit:
            return f'point {q} of the {what_b} is {d:.6g} from the {what_a} (allowed {limit:.6g})'
    return None


def parse_out(i):
    from .shapes_common import parse_els
    if engine_error(i):
        return None, 'engine error ' + i[:160]
    els = parse_els(i.split(' | ', 1)[1] if ' | ' in i else i)
    if els is None:
        return None, 'unparsable output'
    for el in els:
        for p in el[1:]:
            if not (math.isfinite(p[0]) and math.isfinite(p[1])):
                return None, 'non-finite output'
    return els, None


def ext_of(els):
    return max([1.0] + [abs(c) for el in els for p in el[1:] for c in p])


@maker(MAKERS)
def fit(els, acc, opt, stratum):
    line = f'path.fit {H(acc)} {opt} {els_str(els)}'

    def judge(o):
        out, err = parse_out(o['I'][0])
        if err:
            return err
        src = O.path_segments(els)
        ext = ext_of(els)
        if not out or out[0][0] != 'M' or any(e[0] != 'C' for e in out[1:]) or len(out) < 2:
            return f'fitted path is not MoveTo followed by CurveTo only: {"".join(e[0] for e in out)}'
        slack = 1e-9 * ext
        if math.hypot(out[0][1][0] - src[0][0][0], out[0][1][1] - src[0][0][1]) > slack:
            return f'fitted path starts at {out[0][1]}, the source at {src[0][0]}'
        if math.hypot(out[-1][-1][0] - src[-1][-1][0], out[-1][-1][1] - src[-1][-1][1]) > slack:
            return f'fitted path ends at {out[-1][-1]}, the source at {src[-1][-1]}'
        return hausdorff_two_sided(O.path_segments(out), src, 2 * acc + slack, 'fitted path', 'source')
    return Case(line, 'I', judge, stratum, 'oracle')


def curvature_max(c):
    d1 = [((b[0] - a[0]) * 3, (b[1] - a[1]) * 3) for a, b in zip(c, c[1:])]
    d2 = [((b[0] - a[0]) * 2, (b[1] - a[1]) * 2) for a, b in zip(d1, d1[1:])]
    k = 0.0
    for i in range(257):
        t = i / 256
        v, a = bez_eval(d1, t), bez_eval(d2, t)
        sp = math.hypot(*v)
        if sp == 0:
            return float('inf')
        k = max(k, abs(v[0] * a[1] - v[1] * a[0]) / sp ** 3)
    return k


@maker(MAKERS)
def offset(c, d, acc, opt, stratum):
    line = f'cubic.fit_offset {H(*[x for p in c for x in p])} {H(d)} {H(acc)} {opt}'

    def judge(o):
        out, err = parse_out(o['I'][0])
        if err:
            return err
        ext = max([1.0] + [abs(x) for p in c for x in p])
        slack = 1e-9 * ext
        if not out or out[0][0] != 'M' or any(e[0] != 'C' for e in out[1:]) or len(out) < 2:
            return f'offset path is not MoveTo followed by CurveTo only: {"".join(e[0] for e in out)}'
        # end points: c(0) + d n(0), c(1) + d n(1), n = left normal (-y', x') / |c'|
        for t, pt, nm in ((0.0, out[0][1], 'starts'), (1.0, out[-1][-1], 'ends')):
            k = 0 if t == 0.0 else 2
            tx, ty = c[k + 1][0] - c[k][0], c[k + 1][1] - c[k][1]
            ln = math.hypot(tx, ty)
            want = (c[0 if t == 0.0 else 3][0] - ty / ln * d, c[0 if t == 0.0 else 3][1] + tx / ln * d)
            if math.hypot(pt[0] - want[0], pt[1] - want[1]) > 2 * acc + slack:
                return f'offset path {nm} at {pt}; the offset of the end point is {want}'
        cseg = [tuple(p) for p in c]
        for s in O.path_segments(out):
            for i in range(11):
                q = bez_eval(s, i / 10)
                dist = seg_nearest(q, cseg)[0]
                if abs(dist - abs(d)) > 2 * acc + slack:
                    return f'point {q} of the fitted offset is {dist:.6g} from the source cubic; offset distance {abs(d):.6g}, accuracy {acc:.3g}'
        # the offset lies on the side of the sign of d: check the midpoint of the first piece
        return None
    return Case(line, 'I', judge, stratum, 'oracle')


def sub_paths(els):
    out = []
    for el in els:
        if el[0] == 'M' or not out:
            out.append([])
        out[-1].append(el)
    return out


def corners_of(sp, tan_thresh=1e-3):
    """vertices of a sub-path where the direction changes by more than the angle threshold (kurbo: |cross| > thresh * dot or dot < 0)"""
    segs = O.path_segments(sp)
    out = []

    def tan_end(s):
        for a, b in ((s[-2], s[-1]), (s[-3] if len(s) > 2 else s[-2], s[-1]), (s[0], s[-1])):
            v = (b[0] - a[0], b[1] - a[1])
            if v != (0.0, 0.0):
                return v
        return (0.0, 0.0)

    def tan_start(s):
        for a, b in ((s[0], s[1]), (s[0], s[2] if len(s) > 2 else s[1]), (s[0], s[-1])):
            v = (b[0] - a[0], b[1] - a[1])
            if v != (0.0, 0.0):
                return v
        return (0.0, 0.0)
    for s0, s1 in zip(segs, segs[1:]):
        a, b = tan_end(s0), tan_start(s1)
        cr, dt = a[0] * b[1] - a[1] * b[0], a[0] * b[0] + a[1] * b[1]
        if dt <= 0 or abs(cr) > 10 * tan_thresh * dt:       # clearly a corner (10x the threshold: the threshold itself is the crate's business)
            out.append(s0[-1])
    return out


@maker(MAKERS)
def simplify(els, acc, opt, stratum):
    line = f'path.simplify {H(acc)} {opt} {els_str(els)}'

    def judge(o):
        out, err = parse_out(o['I'][0])
        if err:
            return err
        ext = ext_of(els)
        slack = 1e-9 * ext
        sin, sout = sub_paths(els), sub_paths(out)
        if len(sin) != len(sout):
            return f'{len(sin)} sub-paths in, {len(sout)} out'
        for k, (a, b) in enumerate(zip(sin, sout)):
            if (a[-1][0] == 'Z') != (b[-1][0] == 'Z'):
                return f'sub-path {k}: closedness changed'
            if b[0][0] != 'M' or math.hypot(a[0][1][0] - b[0][1][0], a[0][1][1] - b[0][1][1]) > slack:
                return f'sub-path {k}: start point {a[0][1]} became {b[0][1:]}'
            ea = [e for e in a if e[0] != 'Z'][-1][-1]
            eb = [e for e in b if e[0] != 'Z'][-1][-1]
            if math.hypot(ea[0] - eb[0], ea[1] - eb[1]) > slack:
                return f'sub-path {k}: end point {ea} became {eb}'
            verts = [e[-1] for e in b if e[0] != 'Z']
            for cpt in corners_of(a):
                if min(math.hypot(cpt[0] - v[0], cpt[1] - v[1]) for v in verts) > slack:
                    return f'sub-path {k}: corner {cpt} is not a vertex of the simplified path'
            v = hausdorff_two_sided(O.path_segments(b), O.path_segments(a), 2 * acc + slack, f'simplified sub-path {k}', 'original', n=8)
            if v:
                return v
        return None
    return Case(line, 'I', judge, stratum, 'oracle')


def skeleton_mismatch(impl_els, model_els, ext):
    """compare the implementation's simplified path with the model's skeleton (every fitted stretch printed as one `C a b b`): MoveTo / ClosePath /
    single segments verbatim (bit for bit), a fitted stretch = one or more CurveTo ending at b (1e-9 extent)"""
    i = 0
    cur = None
    slack = 1e-9 * ext
    for m in model_els:
        if i >= len(impl_els):
            return f'the implementation stops after {i} elements, the model goes on with {m}'
        e = impl_els[i]
        if m[0] == 'C' and cur is not None and m[1] == cur and m[2] == m[3] and e != m:
            # a fitted stretch from cur to m[3]
            b = m[3]
            j = i
            while j < len(impl_els) and impl_els[j][0] == 'C':
                if math.hypot(impl_els[j][3][0] - b[0], impl_els[j][3][1] - b[1]) <= slack:
                    break
                j += 1
            if j >= len(impl_els) or impl_els[j][0] != 'C':
                return f'no CurveTo of the implementation ends at the end {b} of the fitted stretch that starts at {cur} (element {i})'
            i = j + 1
            cur = b
            continue
        if e != m:
            return f'element {i}: implementation {e}, model {m}'
        if e[0] != 'Z':
            cur = e[-1]
        i += 1
    if i != len(impl_els):
        return f'the implementation has {len(impl_els) - i} more elements than the model: {impl_els[i:i + 3]}'
    return None


def skeleton_mismatch_closed(impl_els, model_els, ext):
    """`skeleton_mismatch` for stretches that may pass through their own end point (closed loops inside a stretch): the same rule - MoveTo / ClosePath / single
    segments verbatim, a fitted stretch `C a b b` of the model = one or more CurveTo of the implementation, the last of them ending at b (1e-9 extent) - but
    EVERY CurveTo of the run that ends at b is tried as the end of the stretch, not only the first"""
    slack = 1e-9 * ext
    first_err = []

    def go(i, k, cur):
        if k == len(model_els):
            if i != len(impl_els):
                first_err.append(f'the implementation has {len(impl_els) - i} more elements than the model: {impl_els[i:i + 3]}')
                return False
            return True
        m = model_els[k]
        if i >= len(impl_els):
            first_err.append(f'the implementation stops after {i} elements, the model goes on with {m}')
            return False
        e = impl_els[i]
        if m[0] == 'C' and cur is not None and m[1] == cur and m[2] == m[3] and e != m:
            b = m[3]
            j = i
            tried = False
            while j < len(impl_els) and impl_els[j][0] == 'C':
                if math.hypot(impl_els[j][3][0] - b[0], impl_els[j][3][1] - b[1]) <= slack:
                    tried = True
                    if go(j + 1, k + 1, b):
                        return True
                j += 1
            if not tried:
                first_err.append(f'no CurveTo of the implementation ends at the end {b} of the fitted stretch that starts at {cur} (element {i})')
            return False
        if e != m:
            first_err.append(f'element {i}: implementation {e}, model {m}')
            return False
        return go(i + 1, k + 1, e[-1] if e[0] != 'Z' else cur)
    return None if go(0, 0, None) else first_err[0]


@maker(MAKERS)
def simplify_skeleton(els, acc, opt, stratum):
    """control skeleton of simplify_bezpath: implementation vs the Lean model (Kurbo/Simplify.lean; the fitter itself is abstract there)"""
    from .shapes_common import parse_els
    lines = [f'path.simplify {H(acc)} {opt} {els_str(els)}', f'path.simplify_skel {els_str(els)}']

    def judge(o):
        out, err = parse_out(o['I'][0])
        if err:
            return err
        f = o['F'][1]
        if engine_error(f):
            return 'CORR engine error (model) ' + f[:80]
        mod = parse_els(f[3:] if f.startswith('ok ') else f)
        v = skeleton_mismatch(out, mod, ext_of(els))
        return ('CORR skeleton: ' + v) if v else None
    return Case(lines, 'IF', judge, stratum, 'corr-F')


@maker(MAKERS)
def tangent_probe(kind, pts, a, b, acc, opt, stratum):
    """`PathSeg::tangents` (pub(crate), so not callable from the harness) seen through the corner test of simplify_bezpath: the path
    `M a L p0 <segment> L b` goes through the crate and through the model skeleton (exact comparison of the structure: a corner at p0 on either side of the
    segment shows as a separate stretch); in addition the model's own `seg.tangents` (binary64) must be finite, and non-zero unless all control points coincide"""
    from .shapes_common import parse_els
    els = [('M', a), ('L', pts[0]), (kind,) + tuple(pts[1:]), ('L', b)]
    vals = [c for q in pts for c in q]
    lines = [f'path.simplify {H(acc)} {opt} {els_str(els)}', f'path.simplify_skel {els_str(els)}', f'seg.tangents {kind} {H(*vals)}']

    def judge(o):
        out, err = parse_out(o['I'][0])
        if err:
            return err
        f = o['F'][1]
        if engine_error(f):
            return 'CORR engine error (model) ' + f[:80]
        mod = parse_els(f[3:] if f.startswith('ok ') else f)
        v = skeleton_mismatch_closed(out, mod, ext_of(els))
        if v:
            return 'CORR skeleton: ' + v
        t = o['F'][2]
        if engine_error(t):
            return 'engine error (model seg.tangents) ' + t[:80]
        tv = [h2f(x) for x in t.split()]
        if len(tv) != 4 or not all(math.isfinite(x) for x in tv):
            return f'model tangents not finite: {tv}'
        point = all(q == pts[0] for q in pts)
        z0, z1 = tv[0] == 0.0 and tv[1] == 0.0, tv[2] == 0.0 and tv[3] == 0.0
        if (z0 or z1) != point or (z0 != z1):
            return f'model tangents {tv} of {kind} {pts}: a zero tangent if and only if all control points coincide is violated'
        return None
    return Case(lines, 'IF', judge, stratum, 'corr-F')


def tiny_closed_segment(rng):
    """a quadratic / cubic whose end points coincide (or are 1e-9 apart) with control arms that are zero, tiny (1e-9 .. 2e-6: at or below the EPS = 1e-12
    threshold on the squared length) or of ordinary size (1e-3, 1)"""
    dirs = [(1.0, 0.0), (0.0, 1.0), (-1.0, 0.0), (0.0, -1.0), (0.6, 0.8), (-0.8, 0.6), (0.6, -0.8), (-0.6, -0.8)]
    p0 = rng.choice([(0.0, 0.0), (0.0, 0.0), (1.0, -2.0), (0.25, 0.5), (3.0, 3.0)])
    size = rng.choice([1e-9, 1e-8, 1e-7, 1e-7, 1e-6, 2e-6, 1e-3, 1.0])

    def arm(zero_ok=True):
        r = rng.random()
        if zero_ok and r < 0.3:
            return p0
        d = rng.choice(dirs)
        s = size if r < 0.85 else 1e-7
        return (p0[0] + s * d[0], p0[1] + s * d[1])
    r = rng.random()
    if r < 0.1:
        d = rng.choice(dirs)
        end = (p0[0] + 1e-9 * d[0], p0[1] + 1e-9 * d[1])     # nearly closed: the chord is tiny but not zero
    else:
        end = p0
    if rng.random() < 0.4:
        return 'Q', [p0, arm(), end]
    return 'C', [p0, arm(), arm(), end]


def tangent_probe_case(rng, acc, opt):
    kind, pts = tiny_closed_segment(rng)
    dirs = [(1.0, 0.0), (0.0, 1.0), (-1.0, 0.0), (0.0, -1.0), (1.0, 1.0), (-1.0, 1.0), (1.0, -1.0), (-1.0, -1.0), (0.6, 0.8), (-0.8, 0.6), (0.6, -0.8), (-0.6, -0.8)]
    da, db = rng.choice(dirs), rng.choice(dirs)
    la, lb = rng.choice([1.0, 2.0, 0.5]), rng.choice([1.0, 2.0, 0.5])
    a = (pts[0][0] - la * da[0], pts[0][1] - la * da[1])
    b = (pts[-1][0] + lb * db[0], pts[-1][1] + lb * db[1])
    return tangent_probe(kind, pts, a, b, acc, opt, 'skeleton-closed-tiny')


@maker(MAKERS)
def moments(vals, stratum):
    """moment_integrals of a cubic: implementation vs exact rational model (translated kernel) and vs the exact integrals"""
    line = f'cubic.moments {H(*vals)}'
    pts = [(vals[i], vals[i + 1]) for i in range(0, 8, 2)]
    sc = max(1.0, max(abs(v) for v in vals))

    def judge(o):
        i, r = o['I'][0], o['R'][0]
        if engine_error(i, r):
            return f'engine error {i[:80]} / {r[:80]}'
        iv = [h2f(x) for x in i.split()]
        px, py = O.seg_polys(pts)
        dx = O.pderiv(px)

        def integ(p):
            return sum(Fr(c) / (k + 1) for k, c in enumerate(p))
        want = [integ(O.pmul(py, dx)), integ(O.pmul(O.pmul(px, py), dx)), integ(O.pmul(O.pmul(py, py), dx))]
        scales = [sc ** 2, sc ** 3, sc ** 3]
        for k in range(3):
            if abs(iv[k] - float(want[k])) > 1e-12 * scales[k]:
                return f'moment {k}: implementation {iv[k]}, exact integral {float(want[k])}'
        rv = [h2f(x) for x in r.split()]
        for k in range(3):
            if abs(iv[k] - rv[k]) > 1e-12 * scales[k]:
                return f'CORR moment {k}: implementation {iv[k]}, exact model {rv[k]}'
        return None
    return Case(line, 'IR', judge, stratum, 'corr-R')


def smooth_cubic(rng):
    els = smooth_chain(rng)
    k = rng.randrange(1, len(els))
    p0 = els[k - 1][-1]
    return [p0] + list(els[k][1:])


def closed_loop(rng, size=None):
    """a closed smooth loop: a whole ellipse (any rotation) as a chain of G1 cubics whose last point IS the first point"""
    n = rng.randint(4, 16)
    rx, ry, rot = rng.uniform(2, 8), rng.uniform(2, 8), rng.uniform(0, 3)
    if size is not None:
        rx, ry = size * rng.uniform(0.5, 1), size * rng.uniform(0.3, 1)
    cx, cy = rng.uniform(-3, 3), rng.uniform(-3, 3)
    cr, sr = math.cos(rot), math.sin(rot)
    f = lambda t: (cx + cr * rx * math.cos(t) - sr * ry * math.sin(t), cy + sr * rx * math.cos(t) + cr * ry * math.sin(t))
    df = lambda t: (-cr * rx * math.sin(t) - sr * ry * math.cos(t), -sr * rx * math.sin(t) + cr * ry * math.cos(t))
    ts = [2 * math.pi * i / n for i in range(n + 1)]
    els = [('M', f(0.0))]
    for ta, tb in zip(ts, ts[1:]):
        h = (tb - ta) / 3
        p0, p3, d0, d3 = f(ta), f(tb), df(ta), df(tb)
        if tb == ts[-1]:
            p3, d3 = f(0.0), df(0.0)
        els.append(('C', (p0[0] + h * d0[0], p0[1] + h * d0[1]), (p3[0] - h * d3[0], p3[1] - h * d3[1]), p3))
    return els


def simplify_source(rng):
    els = []
    for _ in range(rng.randint(1, 3)):
        p = (rng.uniform(-8, 8), rng.uniform(-8, 8))
        start = p
        els.append(('M', p))
        for _ in range(rng.randint(1, 4)):
            if rng.random() < 0.6:
                ch = smooth_chain(rng)
                o = ch[0][1]
                for e in ch[1:]:
                    els.append(('C',) + tuple((q[0] - o[0] + p[0], q[1] - o[1] + p[1]) for q in e[1:]))
                p = els[-1][-1]
            else:
                p = (p[0] + rng.uniform(-4, 4), p[1] + rng.uniform(-4, 4))
                els.append(('L', p))
        if rng.random() < 0.4:
            els.append(('Z',))
    return els


def skeleton_source(rng):
    """paths on a small grid with every structural feature: several sub-paths, repeated points, zero-length segments, drawing after ClosePath, exact
    reversals, collinear continuations (smooth joins of lines), retracted handles"""
    g = lambda: (float(rng.randint(-3, 3)), float(rng.randint(-3, 3)))
    els = [('M', g())]
    for _ in range(rng.randint(1, 9)):
        r = rng.random()
        last = [e for e in els if e[0] != 'Z'][-1][-1]
        if r < 0.3:
            els.append(('L', g() if rng.random() < 0.8 else last))
        elif r < 0.4:      # straight continuation or exact reversal of a line
            prev = [e for e in els if e[0] != 'Z']
            if len(prev) >= 2:
                a, b = prev[-2][-1], prev[-1][-1]
                d = (b[0] - a[0], b[1] - a[1])
                sgn = rng.choice([1.0, 1.0, -1.0])
                els.append(('L', (b[0] + sgn * d[0], b[1] + sgn * d[1])))
            else:
                els.append(('L', g()))
        elif r < 0.55:
            els.append(('Q', g() if rng.random() < 0.8 else last, g()))
        elif r < 0.8:
            c1 = g() if rng.random() < 0.8 else last
            e = g()
            els.append(('C', c1, g() if rng.random() < 0.8 else e, e))
        elif r < 0.9:
            els.append(('Z',))
        else:
            els.append(('M', g()))
    return els


def generate(rng, tier):
    n = 60 if tier == 'quick' else 1500
    for k in range(n):
        acc = 10.0 ** rng.uniform(-4, 0)
        yield fit(smooth_chain(rng), acc, k % 2, f'fit-opt{k % 2}')
        c = smooth_cubic(rng)
        kmax = curvature_max(c)
        if kmax > 0 and math.isfinite(kmax):
            d = rng.choice([-1.0, 1.0]) * rng.uniform(0.05, 0.8) / kmax
            d = max(-5.0, min(5.0, d))
            yield offset(c, d, min(acc, abs(d) / 4), (k // 2) % 2, f'offset-opt{(k // 2) % 2}')
        src_s = simplify_source(rng)
        yield simplify(src_s, acc, (k // 3) % 2, f'simplify-opt{(k // 3) % 2}')
        yield simplify_skeleton(src_s, acc, (k // 3) % 2, 'skeleton')
        yield simplify_skeleton(skeleton_source(rng), acc, k % 2, 'skeleton-grid')
        for _ in range(4):
            yield tangent_probe_case(rng, acc, k % 2)
        if k % 4 == 0:
            loop = closed_loop(rng)
            yield fit(loop, acc, (k // 4) % 2, f'fit-closed-loop-opt{(k // 4) % 2}')
            yield simplify(loop + ([('Z',)] if rng.random() < 0.5 else []), acc, (k // 8) % 2, f'simplify-closed-loop-opt{(k // 8) % 2}')
            # small loops: diameter between a few accuracies and sqrt(accuracy) - every chord is shorter than the accuracy long before the loop is resolved
            acc_s = 10.0 ** rng.uniform(-4, -1)
            small = closed_loop(rng, size=rng.uniform(3 * acc_s, max(4 * acc_s, 0.45 * math.sqrt(acc_s))))
            yield fit(small, acc_s, (k // 4) % 2, f'fit-small-loop-opt{(k // 4) % 2}')
            yield simplify(small + [('Z',)], acc_s, (k // 8) % 2, f'simplify-small-loop-opt{(k // 8) % 2}')
        for how in range(3):
            if how == 0:
                v = [rng.randint(-40, 40) / 4.0 for _ in range(8)]
            elif how == 1:
                v = [rng.uniform(-10, 10) for _ in range(8)]
            else:
                v = [rng.randint(-3, 3) / 1.0 for _ in range(8)]
            yield moments(v, ['grid', 'generic', 'small'][how])

