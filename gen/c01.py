"""C01 – winding number and containment."""
from .common import *
from . import oracle as O
from fractions import Fraction as Fr

RULE = ('closed paths with 1-3 sub-paths of 3-8 segments (lines / quadratics / cubics / mixed; self-intersecting allowed) with coordinates on the '
        'grid k/4 (|k|<=40), generic doubles, regular polygons (vertex ordinates like 1.2e-15), degree-raised segments and loop segments (a cubic/quadratic ending bit-exactly at its own start, alone as a sub-path or inside a contour); query points: 40% on rows '
        'y = a vertex / end-point / extremum ordinate (bit-equal), 20% on columns, 40% generic; all filtered to distance > 10*delta from the path '
        '(delta = 1e-6 extent, evaluated in exact arithmetic). Oracle: exact crossing count on the generic row y+eta over Q (Sturm isolation); '
        'polylines additionally: implementation == exact rational model; curves: implementation == Float model; metamorphic: reverse negates, '
        'affine multiplies by sign det, split/raise unchanged (all on the implementation). non-trivial = distinct (path, point)')
KERNEL_DEPS = [r'PathSeg\.(start|end|eval|subsegment)', r'(Line|QuadBez|CubicBez)\.(eval|subsegment)']
UNPROVED = ['curved closed paths: crossings = topological number needs a homotopy argument (cited); affine law is topological (checked metamorphically)',
            'float miscounts on curve rows through end points/extrema (known finding)']
ASSUMPTIONS = ['the polygon theorem is over the reals (Complex.arg); the line branch of winding_inner is proved equal to the crossing indicator for every lawful field']
MAKERS = {}
HEAVY_JUDGE = True


def els_str(els):
    out = []
    for el in els:
        if el[0] == 'Z':
            out.append('Z')
        else:
            out.append(el[0] + ' ' + ' '.join(H(*p) for p in el[1:]))
    return ' '.join(out)


def extent(els):
    xs = [c for el in els for p in el[1:] for c in p]
    return max(1e-9, max(xs) - min(xs))


def tup(els):
    return [tuple(tuple(x) if isinstance(x, list) else x for x in el) for el in els]


@maker(MAKERS)
def winding_case(els, q, kinds, stratum):
    """els: python element list; q: query; kinds: 'poly' (model@Rat exact) or 'curve' (model@Float)"""
    els = tup(els)
    line = f'path.winding {H(*q)} {els_str(els)}'
    need = 'IR' if kinds == 'poly' else 'IF'
    ext = extent(els)
    delta = 1e-6 * ext

    def judge(o):
        i = o['I'][0]
        if engine_error(i):
            return 'engine error ' + i
        # domain guard, exact: farther than 10 delta from the path
        d2 = O.dist2_point_path_lower_bound(els, q)
        if d2 <= Fr(10 * delta) ** 2:
            return None
        w_impl, c_impl = i.split()
        eta = Fr(delta) * Fr(3, 7)
        w_true = O.winding_exact(els, q, eta)
        if w_true is None:
            w_true = O.winding_exact(els, q, Fr(delta) * Fr(2, 9))
        if w_true is None:
            return None
        if int(w_impl) != w_true:
            return f'winding {w_impl} but the topological winding number is {w_true}'
        if (c_impl == '1') != (w_true != 0):
            return f'contains = {c_impl} but winding number is {w_true}'
        m = o['R' if kinds == 'poly' else 'F'][0]
        if m != i:
            # the implementation has just been shown RIGHT by the exact oracle.  On a path with a degree-raised cubic (leading coefficient of rounding
            # size: the ill-conditioned class of the known finding) the Float model and the crate may round differently after a harmless rewrite of
            # `eval`; that is a difference of the model, not of the property - everywhere else model and crate must agree
            if kinds != 'poly' and _has_negligible_cubic(els):
                return None
            return f'CORR impl != model ({need[1]}): impl={i} model={m}'
        return None
    c = Case(line, need, judge, stratum, 'oracle')
    return c


@maker(MAKERS)
def winding_meta(els, q, a):
    """on the implementation: reverse negates; affine multiplies by sign det; raising every segment to a cubic and splitting keep it"""
    els = tup(els)
    line = f'path.winding_meta {H(*a)} {H(*q)} {els_str(els)}'
    ext = extent(els)

    def judge(o):
        i = o['I'][0]
        if engine_error(i):
            return 'engine error ' + i
        d2 = O.dist2_point_path_lower_bound(els, q)
        if d2 <= Fr(1e-4 * ext) ** 2:
            return None     # metamorphic images move rounding around: stay well away from the path
        w, wrev, waff, wraise, wsplit = (int(x) for x in i.split())
        det = a[0] * a[3] - a[1] * a[2]
        if wrev != -w:
            return f'reversing does not negate the winding number: {w} vs {wrev}'
        if waff != (w if det > 0 else -w):
            return f'affine image: winding {waff}, expected sign(det)*{w}'
        if wraise != w:
            return f'degree raising changes the winding number: {w} vs {wraise}'
        if wsplit != w:
            return f'splitting segments changes the winding number: {w} vs {wsplit}'
        return None
    return Case(line, 'I', judge, 'metamorphic', 'oracle')


def rnd_pt(rng, how):
    if how == 'grid':
        return (rng.randint(-40, 40) / 4.0, rng.randint(-40, 40) / 4.0)
    return (rng.uniform(-10, 10), rng.uniform(-10, 10))


def rand_path(rng, how, kinds):
    els = []
    if how == 'regular':
        n = rng.randint(3, 12)
        r = rng.choice([1.0, 2.5, 10.0])
        ph = rng.choice([0.0, 0.0, math.pi / n, rng.uniform(0, 1)])
        pts = [(r * math.cos(ph + 2 * math.pi * k / n), r * math.sin(ph + 2 * math.pi * k / n)) for k in range(n)]
        els.append(('M', pts[0]))
        for p in pts[1:]:
            els.append(('L', p))
        els.append(('Z',))
        return els
    for _ in range(rng.randint(1, 3)):
        start = rnd_pt(rng, how)
        els.append(('M', start))
        for _ in range(rng.randint(2, 7)):
            k = rng.choice(kinds)
            if k == 'R':      # degree-raised line / quad (cubic with rounding-size leading coefficient)
                last = els[-1][-1]
                if rng.random() < 0.5:
                    p3 = rnd_pt(rng, how)
                    els.append(('C', (last[0] + (p3[0] - last[0]) / 3.0, last[1] + (p3[1] - last[1]) / 3.0),
                                (last[0] + (p3[0] - last[0]) * (2.0 / 3.0), last[1] + (p3[1] - last[1]) * (2.0 / 3.0)), p3))
                else:
                    p1, p2 = rnd_pt(rng, how), rnd_pt(rng, how)
                    els.append(('C', (last[0] + (2.0 / 3.0) * (p1[0] - last[0]), last[1] + (2.0 / 3.0) * (p1[1] - last[1])),
                                (p2[0] + (2.0 / 3.0) * (p1[0] - p2[0]), p2[1] + (2.0 / 3.0) * (p1[1] - p2[1])), p2))
            elif k == 'O':    # a loop: a cubic (sometimes a quadratic) that ends bit-exactly where it starts (teardrop inside a contour)
                last = els[-1][-1]
                if rng.random() < 0.75:
                    els.append(('C', rnd_pt(rng, how), rnd_pt(rng, how), last))
                else:
                    els.append(('Q', rnd_pt(rng, how), last))
            else:
                els.append((k,) + tuple(rnd_pt(rng, how) for _ in range({'L': 1, 'Q': 2, 'C': 3}[k])))
        if rng.random() < 0.8:
            els.append(('Z',))
        else:
            els.append(('L', start))
    return els


def special_ordinates(els):
    ys, xs = [], []
    for pts in O.path_segments(els):
        for p in (pts[0], pts[-1]):
            ys.append(p[1])
            xs.append(p[0])
        if len(pts) > 2:
            # y-extrema of the curve (float evaluation of the exact critical points)
            py = O.seg_polys(pts)[1]
            d = O.pderiv(py)
            if d:
                for lo, hi in O.isolate_roots(d, Fr(0), Fr(1), Fr(1, 2 ** 60)):
                    ys.append(float(O.peval(py, (lo + hi) / 2)))
    return xs, ys


def queries(rng, els, n):
    xs, ys = special_ordinates(els)
    allx = [c[0] for el in els for c in el[1:]]
    ally = [c[1] for el in els for c in el[1:]]
    lo_x, hi_x, lo_y, hi_y = min(allx) - 1, max(allx) + 1, min(ally) - 1, max(ally) + 1
    for _ in range(n):
        r = rng.random()
        if r < 0.4:
            yield (rng.uniform(lo_x, hi_x), rng.choice(ys))
        elif r < 0.6:
            yield (rng.choice(xs), rng.uniform(lo_y, hi_y))
        else:
            yield (rng.uniform(lo_x, hi_x), rng.uniform(lo_y, hi_y))


def teardrop(rng, how):
    """a sub-path that is ONE cubic returning to its start (`M p C a b p Z`), alone or next to an ordinary contour"""
    p = rnd_pt(rng, how)
    els = [('M', p), ('C', rnd_pt(rng, how), rnd_pt(rng, how), p), ('Z',)]
    if rng.random() < 0.4:
        els = rand_path(rng, how, 'LQ') + els
    return els


def tiny_first_piece(rng):
    """a contour one of whose curves leaves (or reaches) a vertex almost vertically with a tiny lean the wrong way: its x- (or y-) extremum lies within
    1e-12 .. 1e-7 of t = 0 (or t = 1), so one of the monotone pieces is extremely short; rows through that vertex must still be counted once"""
    e = 2.0 ** -rng.choice([50, 40, 30, 24])
    w, h = rng.uniform(1, 4), rng.uniform(1, 4)
    lean = rng.choice([-e, e])
    kind = rng.choice(['Q', 'C'])
    if kind == 'Q':
        curve = ('Q', (lean, h / 2), (w / 3, h))
    else:
        curve = ('C', (lean, h / 3), (w / 4, 2 * h / 3), (w / 3, h))
    els = [('M', (0.0, 0.0)), curve, ('L', (w, h)), ('L', (w, -h)), ('L', (0.0, -h)), ('Z',)]
    if rng.random() < 0.5:      # the same, mirrored in y and traversed the other way: the short piece is then the LAST one of the curve
        els = [('M', (w / 3, -h)), (('Q', (lean, -h / 2), (0.0, 0.0)) if kind == 'Q' else ('C', (w / 4, -2 * h / 3), (lean, -h / 3), (0.0, 0.0))),
               ('L', (0.0, h)), ('L', (w, h)), ('L', (w, -h)), ('Z',)]
    ox, oy = rng.choice([(0.0, 0.0), (rng.randint(-8, 8) / 4.0, rng.randint(-8, 8) / 4.0)])
    els = [(el[0],) + tuple((p[0] + ox, p[1] + oy) for p in el[1:]) for el in els]
    return els, (ox, oy), w


def generate(rng, tier):
    for _ in range(40 if tier == 'quick' else 1500):
        els, v, w = tiny_first_piece(rng)
        for q in ((v[0] + rng.uniform(0.2, 0.9) * w, v[1]), (v[0] - rng.uniform(0.2, 2.0), v[1]), (v[0] + rng.uniform(0.2, 0.9) * w, v[1] + rng.choice([-1e-3, 1e-3]))):
            yield winding_case(els, list(q), 'curve', 'tiny-monotone-piece')
    n = 60 if tier == 'quick' else 4000
    for it_ in range(n):
        # closed-loop segments (end point == start point): a single segment that encloses area (every round in the quick tier, every
        # fifth round in the thorough tier, whose exact oracle is the bottleneck)
        for how in (('grid', 'generic') if (tier == 'quick' or it_ % 5 == 0) else ()):
            for els, st in ((teardrop(rng, how), f'{how}-teardrop'), (rand_path(rng, how, 'LCOO'), f'{how}-loop-segments')):
                for q in queries(rng, els, 5):
                    yield winding_case(els, list(q), 'curve', st)
        for how, kinds, tag in (('grid', 'L', 'poly'), ('generic', 'L', 'poly'), ('regular', 'L', 'poly'),
                                ('grid', 'LQ', 'curve'), ('grid', 'LQC', 'curve'), ('generic', 'QC', 'curve'), ('generic', 'LR', 'curve')):
            els = rand_path(rng, how, kinds)
            st = f'{how}-{"polyline" if tag == "poly" else kinds}'
            for q in queries(rng, els, 6):
                yield winding_case(els, list(q), tag, st)
            a = [rng.uniform(-2, 2) for _ in range(6)]
            if abs(a[0] * a[3] - a[1] * a[2]) > 0.1:
                for q in queries(rng, els, 2):
                    yield winding_meta(els, list(q), a)


def _has_negligible_cubic(els, also_quads=False):
    """a cubic piece whose y polynomial has a non-zero leading coefficient of rounding size (degree-raised line/quadratic):
    solve_cubic then returns garbage (finding C15-cubic-small-leading)"""
    for pts in O.path_segments(tup(els)):
        if len(pts) == 3 and also_quads:
            return True
        if len(pts) == 4:
            for k in (0, 1):
                y = [p[k] for p in pts]
                a = y[3] - 3 * y[2] + 3 * y[1] - y[0]
                b = 3 * (y[2] - 2 * y[1] + y[0])
                c = 3 * (y[1] - y[0])
                if k == 1 and abs(a) <= 1e-8 * max(abs(b), abs(c)):   # a == 0 included: the monotone pieces are recomputed with rounding
                    return True
    return False


def winding_degree_raised(case, outs, verdict):
    """root cause: the path contains a cubic that is a degree-raised line or quadratic (y polynomial with a leading coefficient of
    rounding size), or the metamorphic check itself raised a quadratic: the cubic solver's small-leading-coefficient defect"""
    if verdict.startswith('CORR'):
        return False
    a = case.meta.get('args', [])
    if case.meta.get('maker') == 'winding_case':
        return _has_negligible_cubic(a[0])
    if case.meta.get('maker') == 'winding_meta':
        return ('degree raising' in verdict and _has_negligible_cubic(a[0], also_quads=True)) or _has_negligible_cubic(a[0])
    return False


KNOWN_CLASSES = {'winding_degree_raised': winding_degree_raised}
