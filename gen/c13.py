"""C13 – dashing conserves length and follows the pattern."""
from .common import *
from . import oracle as O
from fractions import Fraction as Fr
import itertools

RULE = ('polylines with rational edge lengths (axis-parallel and scaled 3-4-5 edges), 1-3 sub-paths, open and closed, closing mid-dash / exactly at a switch, '
        'MoveTo-only and ClosePath-only fragments, every interleaving of M/L/Z up to length 4; curves (quadratics, cubics); patterns of 1-6 positive '
        'entries (odd counts), offsets in [0, 3 periods] incl. exact switch points. Oracle (exact rational walk of the pattern along the arc length): '
        'every output point on the source, output begins with MoveTo, total output length = length of the source inside the on-intervals (1e-9 L '
        'polylines, 1e-4 L curves), pattern restarts per sub-path; generic stratum: the full piece geometry incl. the first-dash-last rotation and the '
        'closed-sub-path join; a closed sub-path (polyline or curved) inside the first dash must come back as the sub-path itself, ClosePath last. Implementation compared with the Float instantiation of the Lean model (structure exact, coordinates 1e-9). '
        'non-trivial = distinct (path, pattern, offset) with at least one drawing element')
KERNEL_DEPS = [r'Line\.(arclen|inv_arclen|eval|subsegment)', r'PathSeg\.(subsegment|eval|start)']
UNPROVED = ['curves: depends on the accuracy of inv_arclen (C03); compared with tolerance', 'zero entries in the pattern (outside the quantifier)']
ASSUMPTIONS = ['reading of "in path order": the first dash of every sub-path is emitted last (stash replay), as the crate\'s own test dash_sequence asserts']
MAKERS = {}
HEAVY_JUDGE = True


def els_str(els):
    return ' '.join(el[0] + (' ' + ' '.join(H(*p) for p in el[1:]) if len(el) > 1 else '') for el in els)


def parse_out(s):
    from .shapes_common import parse_els
    return parse_els(s)


def subpaths(els):
    """kurbo semantics for dashing: list of (points of the polyline incl. closing edge, closed?) ; only M/L/Z elements"""
    out = []
    cur = None
    start = None
    for el in els:
        if el[0] == 'M':
            if cur is not None and len(cur) > 1:
                out.append((cur, False))
            cur = [el[1]]
            start = el[1]
        elif el[0] == 'L':
            if cur is None:
                cur = [(0.0, 0.0)]
                start = cur[0]
            cur.append(el[1])
        elif el[0] == 'Z':
            if cur is None:
                continue
            if cur[-1] != start:
                cur.append(start)
            if len(cur) > 1:
                out.append((cur, True))
            cur = [start]
    if cur is not None and len(cur) > 1:
        out.append((cur, False))
    return out


def on_intervals(L, offset, pattern):
    """exact on-intervals of [0, L]"""
    period = sum(pattern)
    res = []
    # position in pattern at s = 0 is offset
    k = 0
    pos = -Fr(offset)
    # walk from pos (<= 0) forward
    on = True
    i = 0
    # advance to cover 0
    while pos + pattern[i] <= 0:
        pos += pattern[i]
        i = (i + 1) % len(pattern)
        on = not on
    while pos < L:
        nxt = pos + pattern[i]
        if on:
            a, b = max(pos, Fr(0)), min(nxt, L)
            if b >= a:
                res.append((a, b))
        pos = nxt
        i = (i + 1) % len(pattern)
        on = not on
    return res


def poly_len(pts):
    return sum(Fr(int(round(math.hypot(b[0] - a[0], b[1] - a[1]) * 1024)), 1024) if False else Fr(math.hypot(b[0] - a[0], b[1] - a[1])) for a, b in zip(pts, pts[1:]))


@maker(MAKERS)
def dash_poly(els, offset, pattern, stratum):
    els = [tuple(tuple(x) if isinstance(x, list) else x for x in el) for el in els]
    line = f'path.dash {H(offset)} {len(pattern)} {H(*pattern)} {els_str(els)}'
    coords = [c for el in els for p in el[1:] for c in p] or [0.0]
    ext = max(1.0, max(coords) - min(coords))

    def judge(o):
        i, f = o['I'][0], o['F'][0]
        if i.startswith('PANIC') or i == 'DIED':
            return f'dash panicked: {i}'
        if engine_error(i):
            return 'engine error ' + i
        out = parse_out(i[3:])
        if out is None:
            return f'unparsable output {i[:80]}'
        sps = subpaths(els)
        if out and out[0][0] != 'M':
            return f'dashed output does not start with MoveTo: {[e[0] for e in out[:4]]}'
        if any(e[0] not in 'MLZ' for e in out):
            return 'dashing a polyline produced curves'
        # every point on the source
        src_segs = [(a, b) for pts, _ in sps for a, b in zip(pts, pts[1:])]
        for e in out:
            for p in e[1:]:
                if not src_segs or min(float(O.dist2_point_seg_exact(p, a, b)) for a, b in src_segs) > (1e-9 * ext) ** 2:
                    return f'output point {p} is not on the source path'
        # conservation of on-length
        want = Fr(0)
        for pts, closed in sps:
            L = poly_len(pts)
            want += sum(b - a for a, b in on_intervals(L, Fr(offset), [Fr(x) for x in pattern]))
        got = 0.0
        last = start = None
        for e in out:
            if e[0] == 'M':
                last = start = e[1]
            elif e[0] == 'L':
                got += math.hypot(e[1][0] - last[0], e[1][1] - last[1])
                last = e[1]
            elif e[0] == 'Z':
                if last is not None and start is not None:
                    got += math.hypot(start[0] - last[0], start[1] - last[1])
                    last = start
        totL = float(sum(poly_len(p) for p, _ in sps))
        if abs(got - float(want)) > 1e-9 * max(1.0, totL):
            return f'dashed length {got!r} differs from the on-length of the pattern {float(want)!r} (path length {totL!r})'
        if engine_error(f) or not f.startswith('ok'):
            return f'CORR model: {f[:60]}'
        fo = parse_out(f[3:])
        if [e[0] for e in fo] != [e[0] for e in out]:
            return f'CORR structure impl={"".join(e[0] for e in out)} model={"".join(e[0] for e in fo)}'
        if not cmp_rel(i, f, 1e-9, ext):
            return f'CORR impl != model@Float impl={i[:160]} model={f[:160]}'
        return None
    return Case(line, 'IF', judge, stratum, 'oracle')


@maker(MAKERS)
def dash_curve(els, offset, pattern):
    els = [tuple(tuple(x) if isinstance(x, list) else x for x in el) for el in els]
    line = f'path.dash {H(offset)} {len(pattern)} {H(*pattern)} {els_str(els)}'
    plen = [f'path.perimeter {H(1e-9)} {els_str(els)}']

    def judge(o):
        i, f = o['I'][0], o['F'][0]
        if i.startswith('PANIC') or i == 'DIED':
            return f'dash panicked: {i}'
        if engine_error(i):
            return 'engine error ' + i
        out = parse_out(i[3:])
        if out and out[0][0] != 'M':
            return 'dashed output does not start with MoveTo'
        if any(math.isnan(c) or math.isinf(c) for e in out for p in e[1:] for c in p):
            return 'non-finite dash output'
        # single open sub-path: on-length
        L = h2f(o['I'][1])
        want = float(sum(b - a for a, b in on_intervals(Fr(L), Fr(offset), [Fr(x) for x in pattern])))
        # length of the output by the crate-independent oracle of C03
        from .c03 import true_length
        got = 0.0
        last = start = None
        for e in out:
            if e[0] == 'M':
                last = start = e[1]
            elif e[0] in 'LQC':
                l, _ = true_length([last] + list(e[1:]))
                got += l
                last = e[-1]
            elif e[0] == 'Z' and start is not None:
                # ClosePath draws the closing line and moves the current point back to the start of the sub-path
                got += math.hypot(last[0] - start[0], last[1] - start[1])
                last = start
        if abs(got - want) > 1e-4 * max(1.0, L):
            return f'dashed length {got!r} differs from the on-length {want!r} (path length {L!r})'
        if engine_error(f) or not f.startswith('ok'):
            return f'CORR model: {f[:60]}'
        fo = parse_out(f[3:])
        if [e[0] for e in fo] != [e[0] for e in out]:
            return f'CORR structure impl={"".join(e[0] for e in out)} model={"".join(e[0] for e in fo)}'
        if not cmp_rel(i, f, 1e-5, 20.0):
            return f'CORR impl != model@Float impl={i[:160]} model={f[:160]}'
        return None
    return Case([line] + plen, 'IF', judge, 'curves', 'oracle')


@maker(MAKERS)
def dash_whole(els, offset, pattern):
    """a single CLOSED sub-path (M, segments, Z) that lies inside the first dash (pattern on at the offset, what is left of the first dash longer
    than the perimeter): the output must be the whole sub-path, element for element and in order - M, the segments, the closing line if the last
    segment does not end at the start point, ClosePath LAST (crate repair 7127469; before it ClosePath came before the last segment) - and the
    Float model must say the same"""
    els = [tuple(tuple(x) if isinstance(x, list) else x for x in el) for el in els]
    line = f'path.dash {H(offset)} {len(pattern)} {H(*pattern)} {els_str(els)}'
    want = list(els[:-1])
    if tuple(els[-2][-1]) != tuple(els[0][1]):
        want.append(('L', els[0][1]))
    want.append(('Z',))

    def judge(o):
        i, f = o['I'][0], o['F'][0]
        if i.startswith('PANIC') or i == 'DIED':
            return f'dash panicked: {i}'
        if engine_error(i):
            return 'engine error ' + i
        out = parse_out(i[3:])
        if out is None:
            return f'unparsable output {i[:80]}'
        if [e[0] for e in out] != [e[0] for e in want]:
            return f'closed sub-path inside the first dash is not returned whole: got {"".join(e[0] for e in out)}, want {"".join(e[0] for e in want)}'
        for a, b in zip(out, want):
            for pa, pb in zip(a[1:], b[1:]):
                if math.hypot(pa[0] - pb[0], pa[1] - pb[1]) > 1e-9 * 20.0:
                    return f'closed sub-path inside the first dash: output point {pa} differs from the source point {pb}'
        if engine_error(f) or not f.startswith('ok'):
            return f'CORR model: {f[:60]}'
        fo = parse_out(f[3:])
        if [e[0] for e in fo] != [e[0] for e in out]:
            return f'CORR structure impl={"".join(e[0] for e in out)} model={"".join(e[0] for e in fo)}'
        if not cmp_rel(i, f, 1e-9, 20.0):
            return f'CORR impl != model@Float impl={i[:160]} model={f[:160]}'
        return None
    return Case(line, 'IF', judge, 'closed-inside-first-dash-whole', 'oracle')


DIRS = [(1, 0), (0, 1), (-1, 0), (0, -1), (3, 4), (4, 3), (-3, 4), (4, -3), (-4, -3), (3, -4)]


def rnd_polyline(rng, closed_p=0.4):
    els = []
    for _ in range(rng.randint(1, 3)):
        p = (rng.randint(-8, 8) / 2.0, rng.randint(-8, 8) / 2.0)
        els.append(('M', p))
        for _ in range(rng.randint(1, 5)):
            d = rng.choice(DIRS)
            k = rng.randint(1, 8) / 4.0
            p = (p[0] + d[0] * k, p[1] + d[1] * k)
            els.append(('L', p))
        if rng.random() < closed_p:
            els.append(('Z',))
    return els


def generate(rng, tier):
    n = 300 if tier == 'quick' else 10000
    for _ in range(n):
        els = rnd_polyline(rng)
        pat = [rng.randint(1, 12) / 4.0 for _ in range(rng.randint(1, 6))]
        per = sum(pat) * (2 if len(pat) % 2 else 1)
        r = rng.random()
        if r < 0.3:
            off = 0.0
        elif r < 0.6:
            off = sum(pat[:rng.randint(0, len(pat))]) + rng.choice([0.0, per])      # exactly at a switch
        else:
            off = rng.uniform(0, 3 * per)
        yield dash_poly(els, off, pat, 'rational-polyline')
        # generic offsets / patterns (no coincidence of switches and vertices)
        pat2 = [rng.uniform(0.1, 3.0) for _ in range(rng.randint(1, 6))]
        yield dash_poly(els, rng.uniform(0, 3 * sum(pat2)), pat2, 'generic-pattern')
    # element interleavings
    maxlen = 3 if tier == 'quick' else 4
    P = [(0.0, 0.0), (2.0, 0.0), (2.0, 1.5)]
    for nn in range(0, maxlen + 1):
        for kinds in itertools.product('MLZ', repeat=nn):
            els = [('M', P[0])]
            k = 1
            for kd in kinds:
                if kd == 'Z':
                    els.append(('Z',))
                else:
                    els.append((kd, P[k % 3]))
                    k += 1
            yield dash_poly(els, 0.25, [1.0, 0.5], 'interleavings')
            yield dash_poly(els, 0.0, [0.75], 'interleavings')
    for _ in range(n // 3):
        p0 = (rng.uniform(-5, 5), rng.uniform(-5, 5))
        els = [('M', p0)]
        for _ in range(rng.randint(1, 3)):
            k = rng.choice('LQC')
            els.append((k,) + tuple((rng.uniform(-5, 5), rng.uniform(-5, 5)) for _ in range({'L': 1, 'Q': 2, 'C': 3}[k])))
        pat = [rng.uniform(0.2, 3.0) for _ in range(rng.randint(1, 4))]
        yield dash_curve(els, rng.uniform(0, 2 * sum(pat)), pat)
    # a CLOSED curved sub-path that lies entirely inside the first dash (first dash longer than the perimeter): the output must be the whole sub-path
    for _ in range(6 if tier == 'quick' else 200):
        p0 = (rng.uniform(-5, 5), rng.uniform(-5, 5))
        els = [('M', p0)]
        for _ in range(rng.randint(2, 3)):
            k = rng.choice('QC')
            els.append((k,) + tuple((rng.uniform(-5, 5), rng.uniform(-5, 5)) for _ in range({'Q': 2, 'C': 3}[k])))
        if rng.random() < 0.7:
            els[-1] = els[-1][:-1] + (p0,)      # the last curve returns exactly to the start (as the outline of a circle does): ClosePath adds no closing line
        els.append(('Z',))
        pat = [rng.choice([500.0, 1000.0]), rng.uniform(0.5, 2.0)]
        c = dash_curve(els, 0.0, pat)
        c.stratum = 'closed-inside-first-dash'
        yield c
        # the same input, exact statement of the repaired behaviour (7127469): the output is the sub-path itself, ClosePath last
        yield dash_whole(els, 0.0, pat)
    # the same for closed polylines (theorems dash_closed_whole / dash_closed_whole_closePath_last of Proofs/C13B.lean)
    for _ in range(6 if tier == 'quick' else 100):
        p0 = (float(rng.randint(-5, 5)), float(rng.randint(-5, 5)))
        els = [('M', p0)]
        for _ in range(rng.randint(2, 4)):
            els.append(('L', (float(rng.randint(-5, 5)), float(rng.randint(-5, 5)))))
        if rng.random() < 0.5:
            els.append(('L', p0))
        els.append(('Z',))
        yield dash_whole(els, rng.choice([0.0, 1.0]), [rng.choice([500.0, 1000.0]), rng.uniform(0.5, 2.0)])


def _first_dash_state(offset, pattern):
    """(remaining length of the interval the pattern is in after `offset`, is it an 'on' interval): dash_impl's initial phase"""
    ix, rem, on = 0, pattern[0] - offset, True
    guard = 0
    while rem < 0 and guard < 100000:
        ix = (ix + 1) % len(pattern)
        rem += pattern[ix]
        on = not on
        guard += 1
    return rem, on


def closed_subpath_inside_first_dash(els, offset, pattern):
    """root cause predicate (input only) of the finding C13-closed-subpath-inside-first-dash, FIXED in the crate by 7127469 (kept for the record and
    for gen/c14.py; no 'known' entry refers to it any more, so a failure on such input is reported as a violation again): some sub-path ends with
    ClosePath, has at least two drawn segments, returns to its start point by itself (so that ClosePath contributes no closing line and the last
    SEGMENT is a drawn one) and its whole perimeter is not longer than what is left of the FIRST 'on' dash (the phase is reset at every sub-path):
    before the repair DashIterator::step appended the ClosePath to the stash BEFORE the last segment of the sub-path, which came out after it,
    drawn from the start point (`M C C C Z C` for a circle)"""
    if not pattern:
        return False
    rem, on = _first_dash_state(offset, pattern)
    if not on:
        return False
    cur, start, length, nseg = None, None, 0.0, 0
    for e in els:
        if e[0] == 'M':
            cur = start = e[1]
            length, nseg = 0.0, 0
        elif e[0] in 'LQC' and cur is not None:
            pts = [cur] + [tuple(q) for q in e[1:]]
            n = 64
            prev = pts[0]
            for i in range(1, n + 1):
                t = i / n
                q = pts
                while len(q) > 1:
                    q = [((1 - t) * a[0] + t * b[0], (1 - t) * a[1] + t * b[1]) for a, b in zip(q, q[1:])]
                length += math.hypot(q[0][0] - prev[0], q[0][1] - prev[1])
                prev = q[0]
            cur = pts[-1]
            nseg += 1
        elif e[0] == 'Z' and cur is not None:
            total = length + math.hypot(cur[0] - start[0], cur[1] - start[1])
            if nseg >= 2 and tuple(cur) == tuple(start) and total <= rem * (1 + 1e-9) + 1e-12:
                return True
            cur = start
            length, nseg = 0.0, 0
    return False


def dash_closed_inside_first(case, outs, verdict):
    """finding C13-closed-subpath-inside-first-dash (see `closed_subpath_inside_first_dash`); status 'fixed' since 7127469: not consulted any more"""
    if verdict.startswith('CORR'):
        return False
    a = case.meta.get('args', [])
    if case.meta.get('maker') == 'dash_curve':
        return closed_subpath_inside_first_dash(a[0], a[1], a[2])
    if case.meta.get('maker') == 'dash_poly':
        return closed_subpath_inside_first_dash(a[0], a[1], a[2])
    return False


KNOWN_CLASSES = {'dash_closed_inside_first': dash_closed_inside_first}
