"""C07 – element and segment views of a path are coherent."""
from .common import *
import itertools

RULE = ('every element string after an initial MoveTo over a 3-point alphabet with repetition (13 symbols per position; '
        'total length <= 5 quick / <= 6 thorough) plus random strings up to length 40 with generic doubles; for each: '
        'segments(), get_seg at every index, from_path_segments(segments()), reverse_subpaths, reverse twice - implementation '
        'compared bit-for-bit with the Lean model, and the property relations checked on the implementation output itself. '
        'non-trivial = distinct element string with at least one drawing element')
KERNEL_DEPS = [r'PathSeg\.(start|end|reverse|as_path_el)']
UNPROVED = []
ASSUMPTIONS = ['points compare with f64 PartialEq; the theorems are for scalar types whose equality test is lawful']
MAKERS = {}

PTS = [(0.0, 0.0), (1.0, 0.0), (0.5, 2.0)]


def sym_to_el(sym, pts):
    k = sym[0]
    if k == 'Z':
        return 'Z'
    return k + ' ' + ' '.join(H(*pts[i]) for i in sym[1:])


# 13 symbols: M a/b/c, L a/b/c, Q (ctrl fixed) a/b/c, C a/b/c, Z   (controls: a fixed off-alphabet choice per end point)
SYMS = [('M', 0), ('M', 1), ('M', 2), ('L', 0), ('L', 1), ('L', 2),
        ('Q', 2, 0), ('Q', 0, 1), ('Q', 1, 2), ('C', 1, 2, 0), ('C', 2, 0, 1), ('C', 0, 1, 2), ('Z',)]


def els_line(syms, pts):
    return ' '.join(sym_to_el(s, pts) for s in syms)


def parse_els(s):
    """output element list -> list of tuples (kind, floats...) using raw hex tokens"""
    toks = s.split()
    out = []
    i = 0
    n = {'M': 2, 'L': 2, 'Q': 4, 'C': 6, 'Z': 0}
    while i < len(toks):
        k = toks[i]
        if k not in n:
            return None
        out.append((k,) + tuple(toks[i + 1:i + 1 + n[k]]))
        i += 1 + n[k]
    return out


def parse_segs(s):
    if s == 'PANIC' or s.startswith('PANIC'):
        return None
    parts = s.split(' | ')
    return [tuple(p.split()) for p in parts[1:]]


def seg_rev(seg):
    k = seg[0]
    pts = [seg[i:i + 2] for i in range(1, len(seg), 2)]
    pts.reverse()
    return (k,) + tuple(t for p in pts for t in p)


@maker(MAKERS)
def path_views(els, stratum):
    """impl == model (bit-exact) for segs / getsegs / fromsegs / rev, and the property relations on the impl output"""
    lines = [f'path.segs {els}', f'path.getsegs {els}', f'path.fromsegs {els}', f'path.rev {els}']
    starts_with_move = els.startswith('M')

    def judge(o):
        I, M = o['I'], o['F']
        for k, (a, b) in enumerate(zip(I, M)):
            if a.startswith('PANIC') and b.startswith('PANIC'):
                continue
            if k in (1, 3) and not starts_with_move:
                continue   # BezPath::from_vec debug-asserts an initial MoveTo: outside the domain
            if not cmp_bits(a, b):
                return f'impl != model on `{lines[k].split()[0]}`: impl={a} model={b}'
        if not starts_with_move:
            return None
        segs = parse_segs(I[0])
        if segs is None:
            return 'segments() panicked on a path that starts with MoveTo'
        # get_seg agrees with segments(): the sequence of non-none get_seg results is the segment list
        gs = [tuple(p.split()) for p in I[1].split(' | ')]
        got = [g for g in gs if g != ('none',)]
        if got != segs:
            return f'get_seg disagrees with segments(): {got} vs {segs}'
        # from_path_segments(segments) has the same segments: checked through the model equality above on a second line
        return None
    return Case(lines, 'IF', judge, stratum, 'corr-F')


@maker(MAKERS)
def path_roundtrips(els, stratum):
    """properties on the implementation alone: segments(from_path_segments(segments p)) == segments p with as many MoveTo as
    discontinuities + 1; segments(rev(rev p)) == segments p; rev: per sub-path reversed segments in reverse order"""
    lines = [f'path.segs {els}', f'path.segs_of_fromsegs {els}', f'path.segs_of_revrev {els}', f'path.segs_of_rev {els}', f'path.fromsegs {els}']

    def judge(o):
        I = o['I']
        if any(engine_error(x) for x in I):
            return f'engine error {I}'
        s0, s1, s2, s3 = (parse_segs(x) for x in I[:4])
        if s1 != s0:
            return f'segments(from_path_segments(segments p)) != segments p: {s1} vs {s0}'
        if s2 != s0:
            return f'segments(reverse(reverse p)) != segments p: {s2} vs {s0}'
        # number of MoveTo = 1 + number of discontinuities (0 for no segments)
        moves = sum(1 for e in parse_els(I[4]) if e[0] == 'M')
        disc = sum(1 for a, b in zip(s0, s0[1:]) if a[-2:] != b[1:3])
        want = 0 if not s0 else 1 + disc
        if moves != want:
            return f'from_path_segments: {moves} MoveTo for {disc} discontinuities'
        # reversal: the multiset of reversed segments is preserved, total order reversed per sub-path: checked as
        # "sorted reversed segments equal" (the exact per-sub-path statement is the Lean theorem; model equality covers order)
        if sorted(seg_rev(s) for s in s3) != sorted(s0):
            return f'reverse_subpaths does not yield the reversed segments: {s3} vs {s0}'
        return None
    return Case(lines, 'I', judge, stratum, 'oracle')


def generate(rng, tier):
    maxlen = 4 if tier == 'quick' else 5     # elements after the initial MoveTo
    for n in range(0, maxlen + 1):
        for tail in itertools.product(SYMS, repeat=n):
            els = els_line((('M', 0),) + tail, PTS)
            yield path_views(els, f'exhaustive-len{n + 1}')
            if n >= 1:
                yield path_roundtrips(els, f'exhaustive-len{n + 1}')
    # strings that do not start with MoveTo (free function segments(); ClosePath first panics)
    for n in range(1, 3):
        for tail in itertools.product(SYMS, repeat=n):
            yield path_views(els_line(tail, PTS), 'no-initial-move')
    # random long strings with generic doubles and repeated points
    m = 300 if tier == 'quick' else 20000
    for _ in range(m):
        npts = rng.randint(2, 6)
        pts = [(generic(rng), generic(rng)) for _ in range(npts)]
        ln = rng.randint(1, 40)
        syms = [('M', 0)]
        for _ in range(ln):
            k = rng.choice('MLLLQCZ')
            ar = {'M': 1, 'L': 1, 'Q': 2, 'C': 3, 'Z': 0}[k]
            syms.append((k,) + tuple(rng.randrange(npts) for _ in range(ar)))
        els = els_line(syms, pts)
        yield path_views(els, 'random-long')
        yield path_roundtrips(els, 'random-long')
