"""C07 – element and segment views of a path are coherent."""
from .common import *
import itertools

RULE = ('every element string after an initial MoveTo over a 3-point alphabet with repetition (13 symbols per position; '
        'total length <= 5 quick / <= 6 thorough) plus random strings up to length 40 with generic doubles; for each: '
        'segments(), get_seg at every index, from_path_segments(segments()), reverse_subpaths, reverse twice - implementation '
        'compared bit-for-bit with the Lean model, and the property relations checked on the implementation output itself; builder histories '
        '(stratum mutators: 1-30 random new/with_capacity/from_vec/push/pop/truncate/extend/move_to/line_to/quad_to/curve_to/close_path/apply_affine steps on '
        'small dyadic coordinates, ~12% not avoiding the debug assertions, with elements/iter/len/is_empty/segments/get_seg queries in between and at the '
        'end): implementation == Lean state-machine model (Float and Rat) exactly, incl. which assertion panics, and == the plain list semantics. '
        'non-trivial = distinct element string with at least one drawing element')
KERNEL_DEPS = [r'PathSeg\.(start|end|reverse|as_path_el)']
UNPROVED = []
ASSUMPTIONS = ['points compare with f64 PartialEq; the theorems are for scalar types whose equality test is lawful']
MAKERS = {}

PTS = [(0.0, 0.0), (1.0, 0.0), (0.5, 2.0)]


def sym_to_el(sym, pts):
    k = sym[0]
    if k == 'Z':
        return 'Z'
    return k + ' ' + ' '.join(H(*pts[i]) for i in sym[1:])


# 13 symbols: M a/b/c, L a/b/c, Q (ctrl fixed) a/b/c, C a/b/c, Z   (controls: a fixed off-alphabet choice per end point)
SYMS = [('M', 0), ('M', 1), ('M', 2), ('L', 0), ('L', 1), ('L', 2),
        ('Q', 2, 0), ('Q', 0, 1), ('Q', 1, 2), ('C', 1, 2, 0), ('C', 2, 0, 1), ('C', 0, 1, 2), ('Z',)]


def els_line(syms, pts):
    return ' '.join(sym_to_el(s, pts) for s in syms)


def parse_els(s):
    """output element list -> list of tuples (kind, floats...) using raw hex tokens"""
    toks = s.split()
    out = []
    i = 0
    n = {'M': 2, 'L': 2, 'Q': 4, 'C': 6, 'Z': 0}
    while i < len(toks):
        k = toks[i]
        if k not in n:
            return None
        out.append((k,) + tuple(toks[i + 1:i + 1 + n[k]]))
        i += 1 + n[k]
    return out


def parse_segs(s):
    if s == 'PANIC' or s.startswith('PANIC'):
        return None
    parts = s.split(' | ')
    return [tuple(p.split()) for p in parts[1:]]


def seg_rev(seg):
    k = seg[0]
    pts = [seg[i:i + 2] for i in range(1, len(seg), 2)]
    pts.reverse()
    return (k,) + tuple(t for p in pts for t in p)


@maker(MAKERS)
def path_views(els, stratum):
    """impl == model (bit-exact) for segs / getsegs / fromsegs / rev, and the property relations on the impl output"""
    lines = [f'path.segs {els}', f'path.getsegs {els}', f'path.fromsegs {els}', f'path.rev {els}']
    starts_with_move = els.startswith('M')

    def judge(o):
        I, M = o['I'], o['F']
        for k, (a, b) in enumerate(zip(I, M)):
            if a.startswith('PANIC') and b.startswith('PANIC'):
                continue
            if k in (1, 3) and not starts_with_move:
                continue   # BezPath::from_vec debug-asserts an initial MoveTo: outside the domain
            if not cmp_bits(a, b):
                return f'impl != model on `{lines[k].split()[0]}`: impl={a} model={b}'
        if not starts_with_move:
            return None
        segs = parse_segs(I[0])
        if segs is None:
            return 'segments() panicked on a path that starts with MoveTo'
        # get_seg agrees with segments(): the sequence of non-none get_seg results is the segment list
        gs = [tuple(p.split()) for p in I[1].split(' | ')]
        got = [g for g in gs if g != ('none',)]
        if got != segs:
            return f'get_seg disagrees with segments(): {got} vs {segs}'
        # from_path_segments(segments) has the same segments: checked through the model equality above on a second line
        return None
    return Case(lines, 'IF', judge, stratum, 'corr-F')


@maker(MAKERS)
def path_roundtrips(els, stratum):
    """properties on the implementation alone: segments(from_path_segments(segments p)) == segments p with as many MoveTo as
    discontinuities + 1; segments(rev(rev p)) == segments p; rev: per sub-path reversed segments in reverse order"""
    lines = [f'path.segs {els}', f'path.segs_of_fromsegs {els}', f'path.segs_of_revrev {els}', f'path.segs_of_rev {els}', f'path.fromsegs {els}']

    def judge(o):
        I = o['I']
        if any(engine_error(x) for x in I):
            return f'engine error {I}'
        s0, s1, s2, s3 = (parse_segs(x) for x in I[:4])
        if s1 != s0:
            return f'segments(from_path_segments(segments p)) != segments p: {s1} vs {s0}'
        if s2 != s0:
            return f'segments(reverse(reverse p)) != segments p: {s2} vs {s0}'
        # number of MoveTo = 1 + number of discontinuities (0 for no segments)
        moves = sum(1 for e in parse_els(I[4]) if e[0] == 'M')
        disc = sum(1 for a, b in zip(s0, s0[1:]) if a[-2:] != b[1:3])
        want = 0 if not s0 else 1 + disc
        if moves != want:
            return f'from_path_segments: {moves} MoveTo for {disc} discontinuities'
        # reversal: the multiset of reversed segments is preserved, total order reversed per sub-path: checked as
        # "sorted reversed segments equal" (the exact per-sub-path statement is the Lean theorem; model equality covers order)
        if sorted(seg_rev(s) for s in s3) != sorted(s0):
            return f'reverse_subpaths does not yield the reversed segments: {s3} vs {s0}'
        return None
    return Case(lines, 'I', judge, stratum, 'oracle')


def generate(rng, tier):
    maxlen = 4 if tier == 'quick' else 5     # elements after the initial MoveTo
    for n in range(0, maxlen + 1):
        for tail in itertools.product(SYMS, repeat=n):
            els = els_line((('M', 0),) + tail, PTS)
            yield path_views(els, f'exhaustive-len{n + 1}')
            if n >= 1:
                yield path_roundtrips(els, f'exhaustive-len{n + 1}')
    # strings that do not start with MoveTo (free function segments(); ClosePath first panics)
    for n in range(1, 3):
        for tail in itertools.product(SYMS, repeat=n):
            yield path_views(els_line(tail, PTS), 'no-initial-move')
    # random long strings with generic doubles and repeated points
    m = 300 if tier == 'quick' else 20000
    for _ in range(m):
        npts = rng.randint(2, 6)
        pts = [(generic(rng), generic(rng)) for _ in range(npts)]
        if rng.random() < 0.4:
            # near-coincident points: a neighbour one ulp / 1e-12 / 1e-10 away from another point, and a tiny-scale cluster - "the same point" must
            # mean bit-equal coordinates (from_path_segments inserts a MoveTo on ANY discontinuity)
            import math as _m
            b = pts[0]
            d = rng.choice([0.0, 1e-10, 1e-12, 3e-10])
            pts.append((_m.nextafter(b[0], 1e9), b[1]) if d == 0.0 else (b[0] + d, b[1] - d))
            u = 2.0 ** -32
            pts += [(rng.randint(0, 3) * u, rng.randint(0, 3) * u) for _ in range(2)]
            npts = len(pts)
        ln = rng.randint(1, 40)
        syms = [('M', 0)]
        for _ in range(ln):
            k = rng.choice('MLLLQCZ')
            ar = {'M': 1, 'L': 1, 'Q': 2, 'C': 3, 'Z': 0}[k]
            syms.append((k,) + tuple(rng.randrange(npts) for _ in range(ar)))
        els = els_line(syms, pts)
        yield path_views(els, 'random-long')
        yield path_roundtrips(els, 'random-long')
    # builder histories (C07M) – kept last so that the cases above are unchanged for a given seed
    yield from generate_mutators(rng, tier)


# ---------------------------------------------------------------- BezPath mutators as a state machine (tag C07M)

ARITY = {'M': 1, 'L': 1, 'Q': 2, 'C': 3, 'Z': 0}
PANIC_FIRST = 'PANIC(BezPath must begin with MoveTo)'
PANIC_EMPTY = 'PANIC(uninitialized subpath (missing MoveTo))'
PANIC_SEGS = "PANIC(Can't start a segment on a ClosePath)"


def norm_panic(s):
    """the harness appends ` @ file:line` to the panic message"""
    import re
    return re.sub(r' @ [^()]*\)$', ')', s) if s.startswith('PANIC(') else s


def el_str(el):
    return el[0] + ''.join(' ' + H(*p) for p in el[1:])


def mut_script_str(ops):
    """ops: list of tuples – ('mv', p) ('ln', p) ('qd', p1, p2) ('cv', p1, p2, p3) ('cl',) ('push', el) ('pop',) ('trunc', n) ('ext', els) ('vec', els)
    ('new',) ('cap', n) ('aff', coeffs) and the queries ('els',) ('iter',) ('segs',) ('gseg', i) ('empty',) ('len',)"""
    out = []
    for op in ops:
        k = op[0]
        if k in ('mv', 'ln', 'qd', 'cv'):
            out.append(k + ''.join(' ' + H(*p) for p in op[1:]))
        elif k == 'push':
            out.append('push ' + el_str(op[1]))
        elif k in ('ext', 'vec'):
            out.append(k + ''.join(' ' + el_str(e) for e in op[1]) + ' ;')
        elif k in ('trunc', 'cap', 'gseg'):
            out.append(f'{k} {op[1]}')
        elif k == 'aff':
            out.append('aff ' + H(*op[1]))
        else:
            out.append(k)
    return ' '.join(out)


def mut_reference(ops):
    """the obvious list semantics of a history (independent of the Lean model): the expected outputs of pop / els / iter / len / empty (None where
    this reference does not predict: segs, gseg) or the expected panic line"""
    st = []
    outs = []
    first_ok = lambda: bool(st) and st[0][0] == 'M'
    for op in ops:
        k = op[0]
        if k == 'new' or k == 'cap':
            st = []
        elif k == 'vec':
            if op[1] and op[1][0][0] != 'M':
                return PANIC_FIRST
            st = list(op[1])
        elif k in ('push', 'mv', 'ln', 'qd', 'cv', 'cl'):
            if k in ('ln', 'qd', 'cv', 'cl') and not st:
                return PANIC_EMPTY
            el = op[1] if k == 'push' else ({'mv': 'M', 'ln': 'L', 'qd': 'Q', 'cv': 'C', 'cl': 'Z'}[k],) + tuple(op[1:])
            st.append(el)
            if not first_ok():
                return PANIC_FIRST
        elif k == 'pop':
            outs.append('pop ' + (el_str(st.pop()) if st else 'none'))
        elif k == 'trunc':
            st = st[:op[1]]
        elif k == 'ext':
            st = st + list(op[1])
        elif k == 'aff':
            c = op[1]
            st = [(e[0],) + tuple((c[0] * x + c[2] * y + c[4], c[1] * x + c[3] * y + c[5]) for x, y in e[1:]) for e in st]
        elif k in ('els', 'iter'):
            outs.append((k + ' ' + ' '.join(el_str(e) for e in st)))
        elif k == 'len':
            outs.append(f'len {len(st)}')
        elif k == 'empty':
            outs.append('empty ' + ('1' if all(e[0] in 'MZ' for e in st) else '0'))
        elif k == 'segs':
            if st and st[0][0] == 'Z':
                return PANIC_SEGS
            outs.append(None)
        elif k == 'gseg':
            outs.append(None)
    return outs


@maker(MAKERS)
def path_mut(ops, engine):
    """a builder history: implementation == model (engine 'F' or 'R'), exactly; and == the list semantics where the reference predicts"""
    def tup(x):
        return tuple(tup(y) for y in x) if isinstance(x, (list, tuple)) else x
    ops = [tup(op) for op in ops]
    line = ('path.mut ' + mut_script_str(ops)).rstrip()
    want = mut_reference(ops)

    def judge(o):
        i, m = norm_panic(o['I'][0]), o[engine][0]
        if i in ('UNKNOWN-OP', 'BAD-ARGS', 'BAD-ARGS trailing', 'DIED', 'EMPTY') or m in ('UNKNOWN-OP', 'BAD-ARGS', 'BAD-ARGS trailing', 'DIED', 'EMPTY'):
            return f'engine error impl={i!r} model={m!r}'
        if i.split() != m.split():
            return f'impl != model@{engine} on a builder history: impl={i[:240]} model={m[:240]}'
        if isinstance(want, str):
            return None if i == want else f'list semantics expects {want}, impl gives {i[:200]}'
        if i.startswith('PANIC'):
            return f'unexpected panic {i}'
        got = [x.strip() for x in i.split(' ; ')] if (i or want) else []
        if len(got) != len(want):
            return f'{len(want)} outputs expected, got {len(got)}: {i[:200]}'
        for g, w in zip(got, want):
            if w is not None and g.split() != w.split():
                return f'list semantics expects `{w[:160]}`, impl gives `{g[:160]}`'
        return None
    return Case(line, 'I' + engine, judge, 'mutators', 'corr-' + engine)


def rnd_history(rng):
    d = lambda: rng.randint(-8, 8) / 4.0
    P = lambda: (d(), d())
    mk = lambda k: (k,) + tuple(P() for _ in range(ARITY[k]))
    sloppy = rng.random() < 0.12         # histories that do not care about the assertions
    n = rng.randint(1, 30)
    ops = []
    length = 0                           # length of the simulated state (only used to steer the choice)
    for _ in range(n):
        if length == 0 and not sloppy and rng.random() < 0.97:
            k = rng.choice(['mv', 'mv', 'mv', 'vecM', 'pushM'])
        else:
            k = rng.choice(['mv', 'ln', 'ln', 'ln', 'qd', 'cv', 'cl', 'cl', 'push', 'push', 'pop', 'pop', 'trunc', 'ext', 'ext', 'aff', 'new', 'cap', 'vec',
                            'els', 'len', 'empty', 'segs', 'gseg'])
        if k == 'mv':
            ops.append(('mv', P())); length += 1
        elif k == 'ln':
            ops.append(('ln', P())); length += 1
        elif k == 'qd':
            ops.append(('qd', P(), P())); length += 1
        elif k == 'cv':
            ops.append(('cv', P(), P(), P())); length += 1
        elif k == 'cl':
            ops.append(('cl',)); length += 1
        elif k == 'pushM':
            ops.append(('push', mk('M'))); length += 1
        elif k == 'push':
            ops.append(('push', mk(rng.choice('MLQCZ')))); length += 1
        elif k == 'pop':
            ops.append(('pop',)); length = max(0, length - 1)
        elif k == 'trunc':
            t = rng.choice([0, 1, length, length + 1, length + 5, rng.randint(0, length + 1), max(0, length - 1)])
            ops.append(('trunc', t)); length = min(length, t)
        elif k == 'ext':
            first = 'M' if (length == 0 and not sloppy) else rng.choice('MLQCZ')
            els = [mk(first)] + [mk(rng.choice('MLQCZ')) for _ in range(rng.randint(0, 3))] if rng.random() < 0.9 else []
            ops.append(('ext', els)); length += len(els)
        elif k in ('vec', 'vecM'):
            first = 'M' if (k == 'vecM' or not sloppy or rng.random() < 0.5) else rng.choice('LQCZ')
            els = [mk(first)] + [mk(rng.choice('MLQCZ')) for _ in range(rng.randint(0, 4))] if rng.random() < 0.9 else []
            ops.append(('vec', els)); length = len(els)
        elif k == 'new':
            ops.append(('new',)); length = 0
        elif k == 'cap':
            ops.append(('cap', rng.randint(0, 64))); length = 0
        elif k == 'aff':
            ops.append(('aff', tuple(rng.choice([0.0, 1.0, -1.0, 2.0, 0.5, -0.5, 0.25]) for _ in range(4)) + (d(), d())))
        elif k == 'gseg':
            ops.append(('gseg', rng.randint(0, length + 1)))
        else:
            ops.append((k,))
    # the final queries
    ops += [('els',), ('iter',), ('len',), ('empty',), ('segs',)] + [('gseg', i) for i in range(0, length + 2)]
    return ops


MUT_FIXED = [
    [('els',), ('pop',), ('segs',), ('empty',), ('len',), ('gseg', 0)],
    [('ln', (1.0, 2.0))], [('qd', (1.0, 2.0), (3.0, 4.0))], [('cv', (1.0, 2.0), (3.0, 4.0), (5.0, 6.0))], [('cl',)],
    [('push', ('L', (1.0, 2.0)))], [('push', ('Z',))], [('vec', [('L', (1.0, 2.0))])], [('vec', [])],
    [('ext', [('L', (1.0, 2.0))]), ('els',), ('segs',), ('mv', (0.0, 0.0))],          # extend does not assert; the next push does
    [('ext', [('L', (1.0, 2.0))]), ('ln', (0.0, 0.0))], [('ext', [('Z',)]), ('els',), ('segs',)],
    [('mv', (1.0, 2.0)), ('pop',), ('ln', (1.0, 1.0))],                                 # emptied by pop: line_to asserts again
    [('mv', (1.0, 2.0)), ('ln', (3.0, 4.0)), ('trunc', 0), ('cl',)],
    [('mv', (1.0, 2.0)), ('ln', (3.0, 4.0)), ('push', ('Z',)), ('pop',), ('els',), ('trunc', 2), ('els',), ('ext', [('L', (5.0, 6.0)), ('Z',)]), ('trunc', 2), ('els',), ('segs',)],
    [('mv', (1.0, 2.0)), ('mv', (1.0, 2.0)), ('cl',), ('cl',), ('ln', (0.0, 0.0)), ('empty',), ('segs',), ('gseg', 1), ('gseg', 2), ('gseg', 3), ('gseg', 4), ('gseg', 5)],
    [('vec', [('M', (0.0, 0.0)), ('Q', (1.0, 1.0), (2.0, 0.0))]), ('aff', (2.0, 0.0, 0.0, -1.0, 0.5, 0.25)), ('els',), ('segs',)],
    [('cap', 10), ('mv', (0.0, -0.0)), ('els',), ('new',), ('els',), ('cl',)],
]


def generate_mutators(rng, tier):
    for ops in MUT_FIXED:
        yield path_mut(ops, 'F')
        yield path_mut(ops, 'R')
    for _ in range(600 if tier == 'quick' else 20000):
        ops = rnd_history(rng)
        yield path_mut(ops, 'F')
        yield path_mut(ops, 'R')
