"""C06 – evaluation, sub-segments, subdivision, derivative, reversal, raising."""
from .common import *

RULE = ('segments with control points on the dyadic grid k/8 (|k|<1024) and parameters in {0,1,1/2,k/8}: impl compared with '
        'the exact rational model (exact, or 2e-15*scale where a non-dyadic constant 1/3, 2/3 enters); generic doubles: impl '
        'compared with the exact model to 1e-13*scale; plus impl-only checks of the property itself '
        '(start/end bit-exact, eval(0)/eval(1), subsegment/reverse/raise trace the same points). '
        'non-trivial = distinct op line')
KERNEL_DEPS = [r'Line\.(eval|subsegment|start|end|reversed)', r'QuadBez\.(eval|subsegment|subdivide|start|end|deriv|raise)',
               r'CubicBez\.(eval|subsegment|subdivide|start|end|deriv)', r'PathSeg\.(eval|subsegment|start|end|reverse|to_cubic)']
UNPROVED = ['bit-exactness of start()/end() and eval(0)/eval(1) under IEEE arithmetic (compared on the implementation, exact)',
            'rounding error of evaluation (compared to the exact model with a relative tolerance)']
ASSUMPTIONS = ['theorems are over lawful ordered fields; the f64 clause is decided by comparison only']
MAKERS = {}
NPTS = {'L': 2, 'Q': 3, 'C': 4}
NAME = {'L': 'line', 'Q': 'quad', 'C': 'cubic'}


def scale_of(vals):
    return max([1.0] + [abs(v) for v in vals])


@maker(MAKERS)
def kernel_exact(op, vals, stratum):
    """impl == RN(exact model) on the grid"""
    return case_exact_R(f'{op} {H(*vals)}', stratum)


@maker(MAKERS)
def kernel_rel(op, vals, stratum):
    return case_rel_R(f'{op} {H(*vals)}', 2e-15, scale_of(vals), stratum)


@maker(MAKERS)
def kernel_gen(op, vals, stratum):
    """generic doubles: impl agrees with the exact model to 1e-13 of the data scale (any algebraically neutral
    rewrite of the Rust stays inside; bit-exact comparison with the Float model would alarm on `x/3.0` vs `x*(1.0/3.0)`)"""
    return case_rel_R(f'{op} {H(*vals)}', 1e-13, scale_of(vals), stratum)


@maker(MAKERS)
def seg_exact(op, kind, vals, stratum):
    return case_exact_R(f'{op} {kind} {H(*vals)}', stratum)


@maker(MAKERS)
def seg_gen(op, kind, vals, stratum):
    return case_rel_R(f'{op} {kind} {H(*vals)}', 1e-13, scale_of(vals), stratum)


@maker(MAKERS)
def startend_bits(kind, vals):
    """property: start()/end() return the stored end points exactly (bit-for-bit), also through PathSeg"""
    n = NPTS[kind]
    line = f'seg.startend {kind} {H(*vals)}'
    want = f'{H(vals[0], vals[1])} {H(vals[2 * n - 2], vals[2 * n - 1])}'

    def judge(o):
        i = o['I'][0]
        if engine_error(i):
            return 'engine error ' + i
        return None if i.split() == want.split() else f'start/end not the stored points: got {i} want {want}'
    return Case(line, 'I', judge, 'startend', 'oracle')


@maker(MAKERS)
def eval01(kind, vals):
    """property: eval(0)/eval(1) agree with the end points: bit-for-bit for quads/cubics, one ulp for lines"""
    n = NPTS[kind]
    lines = [f'seg.eval {kind} {H(*vals)} {H(0.0)}', f'seg.eval {kind} {H(*vals)} {H(1.0)}']
    want = [H(vals[0], vals[1]), H(vals[2 * n - 2], vals[2 * n - 1])]

    def judge(o):
        for got, w in zip(o['I'], want):
            if engine_error(got):
                return 'engine error ' + got
            if kind == 'L':
                # p0 + 1*(p1-p0): one rounding of the difference and one of the sum, relative to the data
                gs, ws = floats_of(got), floats_of(w)
                sc = scale_of(vals)
                if any(abs(a - b) > 2.3e-16 * sc * 2 for a, b in zip(gs, ws)):
                    return f'line eval at end point off by more than one unit of rounding: {got} vs {w}'
            elif not cmp_exact(got, w):
                return f'eval(0/1) != stored end point: {got} vs {w}'
        return None
    return Case(lines, 'I', judge, 'eval01', 'oracle')


@maker(MAKERS)
def subseg_traces(kind, vals, t0, t1, u):
    """property: subsegment(t0..t1).eval(u) == eval(t0 + u (t1 - t0)) up to rounding (impl only)"""
    line = f'seg.subseg_eval {kind} {H(*vals)} {H(t0, t1, u)}'

    def judge(o):
        i = o['I'][0]
        if engine_error(i):
            return 'engine error ' + i
        f = floats_of(i)
        sc = scale_of(vals)
        if abs(f[0] - f[2]) > 1e-13 * sc or abs(f[1] - f[3]) > 1e-13 * sc:
            return f'subsegment does not trace the original: {f}'
        return None
    return Case(line, 'I', judge, 'subseg-traces', 'oracle')


@maker(MAKERS)
def reverse_raise_traces(kind, vals, t):
    """property: reverse().eval(t) == eval(1-t); to_cubic() (quad/cubic) .eval(t) == eval(t); line: same image, smoothstep"""
    line = f'seg.rev_raise_eval {kind} {H(*vals)} {H(t)}'

    def judge(o):
        i = o['I'][0]
        if engine_error(i):
            return 'engine error ' + i
        f = floats_of(i)   # rev.eval(t) , eval(1-t), to_cubic.eval(t), eval(t or smoothstep t)
        sc = scale_of(vals)
        if abs(f[0] - f[2]) > 1e-13 * sc or abs(f[1] - f[3]) > 1e-13 * sc:
            return f'reverse does not trace the curve backwards: {f}'
        if abs(f[4] - f[6]) > 1e-13 * sc or abs(f[5] - f[7]) > 1e-13 * sc:
            return f'to_cubic moves a point: {f}'
        return None
    return Case(line, 'I', judge, 'reverse-raise', 'oracle')


def rand_vals(rng, kind, how):
    n = 2 * NPTS[kind]
    if how == 'grid':
        return [grid(rng) for _ in range(n)]
    if how == 'degenerate':
        base = [grid(rng, 4, 1) for _ in range(4)]
        pts = [(rng.choice(base[:2]), rng.choice(base[2:])) for _ in range(NPTS[kind])]
        return [c for p in pts for c in p]
    return [generic(rng) for _ in range(n)]


def tgrid(rng):
    return rng.choice([0.0, 1.0, 0.5, rng.randint(0, 8) / 8.0, rng.randint(-4, 12) / 8.0])


def generate(rng, tier):
    n = 400 if tier == 'quick' else 20000
    for _ in range(n):
        kind = rng.choice('LQC')
        nm = NAME[kind]
        for how in ('grid', 'degenerate', 'generic'):
            v = rand_vals(rng, kind, how)
            exact = how != 'generic'
            t = tgrid(rng) if exact else tparam(rng)
            t0, t1 = (tgrid(rng), tgrid(rng)) if exact else (tparam(rng), tparam(rng))
            mk = kernel_exact if exact else kernel_gen
            mks = seg_exact if exact else seg_gen
            yield mk(f'{nm}.eval', v + [t], how)
            yield mks('seg.eval', kind, v + [t], how)
            yield mk(f'{nm}.startend', v, how)
            if kind == 'C' and exact:
                # (t1-t0)*(1/3) is not dyadic
                yield kernel_rel(f'{nm}.subsegment', v + [t0, t1], how)
            else:
                yield mk(f'{nm}.subsegment', v + [t0, t1], how)
            if kind != 'L':
                yield mk(f'{nm}.subdivide', v, how)
                yield mk(f'{nm}.deriv', v, how)
            if kind == 'Q':
                yield (kernel_rel if exact else kernel_gen)('quad.raise', v, how)
            yield mks('seg.reverse', kind, v, how)
            yield (seg_gen if kind == 'Q' else mks)('seg.tocubic', kind, v, how)
            yield startend_bits(kind, v)
            yield eval01(kind, v)
            yield subseg_traces(kind, v, t0, t1, t)
            yield reverse_raise_traces(kind, v, t)
