"""Framework shared by all property checks: building, obligations, running the three engines, comparing,
known findings, evidence and replay files.  python3 stdlib only."""
import os, sys, re, json, time, struct, subprocess, random, math, hashlib, tempfile
from fractions import Fraction

VERIF = os.path.dirname(os.path.dirname(os.path.abspath(__file__)))
LEAN = os.path.join(VERIF, 'lean')
HARNESS = os.path.join(VERIF, 'harness')
REPO = os.environ.get('VERIF_REPO', '/repo')
KMODEL = os.path.join(LEAN, '.lake', 'build', 'bin', 'kmodel')
KVH = os.path.join(HARNESS, 'target', 'release', 'kvh')
STD_AXIOMS = {'propext', 'Classical.choice', 'Quot.sound'}
ENV = dict(os.environ, CARGO_NET_OFFLINE='true')

# ------------------------------------------------------------------ f64 helpers


def f2h(x):
    return '%016x' % struct.unpack('<Q', struct.pack('<d', float(x)))[0]


def h2f(s):
    if s == 'nan':
        return float('nan')
    return struct.unpack('<d', struct.pack('<Q', int(s, 16)))[0]


def is_hex(s):
    return len(s) == 16 and all(c in '0123456789abcdef' for c in s)


def ordinal(x):
    """monotone map f64 -> int (for ulp distances); -0 == +0"""
    b = struct.unpack('<q', struct.pack('<d', x))[0]
    return b if b >= 0 else -(b & 0x7fffffffffffffff)


def ulps(a, b):
    if math.isnan(a) or math.isnan(b):
        return 0 if (math.isnan(a) and math.isnan(b)) else 1 << 62
    return abs(ordinal(a) - ordinal(b))


def frac(x):
    return Fraction(x)


def H(*xs):
    """hex-encode numbers (floats / Fractions / ints) separated by spaces"""
    return ' '.join(f2h(float(x)) for x in xs)


# ------------------------------------------------------------------ comparators on output strings


def canon_tok(t):
    if t == '8000000000000000':
        return '0000000000000000'   # -0 == +0 unless a property speaks of bits
    return t


def cmp_exact(a, b):
    ta, tb = a.split(), b.split()
    if len(ta) != len(tb):
        return False
    return all(canon_tok(x) == canon_tok(y) for x, y in zip(ta, tb))


def cmp_bits(a, b):
    return a.split() == b.split()


def cmp_ulps(a, b, n, abs_tol=0.0):
    ta, tb = a.split(), b.split()
    if len(ta) != len(tb):
        return False
    for x, y in zip(ta, tb):
        if is_hex(x) and is_hex(y):
            fx, fy = h2f(x), h2f(y)
            if ulps(fx, fy) > n and not (abs(fx - fy) <= abs_tol):
                return False
        elif x != y:
            return False
    return True


def cmp_rel(a, b, eps, scale=1.0):
    """numbers agree to eps*scale absolutely (scale = magnitude of the data), other tokens exactly"""
    ta, tb = a.split(), b.split()
    if len(ta) != len(tb):
        return False
    for x, y in zip(ta, tb):
        if is_hex(x) and is_hex(y):
            fx, fy = h2f(x), h2f(y)
            if math.isinf(fx) or math.isinf(fy):
                if fx != fy:
                    return False
            elif abs(fx - fy) > eps * max(scale, abs(fx), abs(fy)):
                return False
        elif x != y:
            return False
    return True


def floats_of(s):
    return [h2f(t) for t in s.split() if is_hex(t) or t == 'nan']


# ------------------------------------------------------------------ cases


class Case:
    """One unit of checking: some protocol lines, which engines must run them, and a judge.

    judge(outs) -> None if fine, or a string describing the failure.
    outs = {'I': [...], 'R': [...], 'F': [...]} (one output string per line, for the engines requested)
    kind: 'corr-R' (impl vs exact model), 'corr-F' (impl vs float model: transcription), 'oracle' (impl vs spec)
    """
    __slots__ = ('lines', 'need', 'judge', 'stratum', 'kind', 'meta', 'followup')

    def __init__(self, lines, need, judge, stratum='generic', kind='corr-R', meta=None):
        self.lines = lines if isinstance(lines, list) else [lines]
        self.need = need
        self.judge = judge
        self.stratum = stratum
        self.kind = kind
        self.meta = meta or {}
        self.followup = None


def case_exact_R(line, stratum='grid', ulp=0):
    """impl must equal the correctly rounded exact model result (to `ulp` ulps)"""
    def judge(o):
        i, r = o['I'][0], o['R'][0]
        if i.startswith('PANIC') or i in ('UNKNOWN-OP', 'BAD-ARGS', 'BAD-ARGS trailing') or r in ('UNKNOWN-OP', 'BAD-ARGS', 'BAD-ARGS trailing'):
            return f'engine error impl={i!r} model={r!r}'
        ok = cmp_exact(i, r) if ulp == 0 else cmp_ulps(i, r, ulp)
        return None if ok else f'impl != model@Rat  impl={i} model={r}'
    return Case(line, 'IR', judge, stratum, 'corr-R')


def case_float_F(line, stratum='generic', ulp=0, abs_tol=0.0):
    """impl must equal the Float instantiation of the model (transcription check)"""
    def judge(o):
        i, f = o['I'][0], o['F'][0]
        if i.startswith('PANIC') or i in ('UNKNOWN-OP', 'BAD-ARGS', 'BAD-ARGS trailing') or f in ('UNKNOWN-OP', 'BAD-ARGS', 'BAD-ARGS trailing'):
            return f'engine error impl={i!r} model={f!r}'
        ok = cmp_exact(i, f) if ulp == 0 else cmp_ulps(i, f, ulp, abs_tol)
        return None if ok else f'impl != model@Float  impl={i} model={f}'
    return Case(line, 'IF', judge, stratum, 'corr-F')


def case_rel_R(line, eps, scale, stratum='generic'):
    def judge(o):
        i, r = o['I'][0], o['R'][0]
        if i.startswith('PANIC') or 'BAD-ARGS' in i or 'UNKNOWN' in i or 'BAD-ARGS' in r or 'UNKNOWN' in r:
            return f'engine error impl={i!r} model={r!r}'
        return None if cmp_rel(i, r, eps, scale) else f'impl != model@Rat (rel {eps:g}, scale {scale:g}) impl={i} model={r}'
    return Case(line, 'IR', judge, stratum, 'corr-R')


# ------------------------------------------------------------------ building


def sh(cmd, cwd=None, timeout=None):
    p = subprocess.run(cmd, cwd=cwd, shell=isinstance(cmd, str), stdout=subprocess.PIPE, stderr=subprocess.STDOUT,
                       env=ENV, timeout=timeout)
    return p.returncode, p.stdout.decode('utf-8', 'replace')


def regenerate():
    """tie (i): re-translate the kernel from the current working tree; returns translator status per item"""
    status_file = os.path.join(LEAN, '.lake', 'rs2lean_status.json')
    os.makedirs(os.path.dirname(status_file), exist_ok=True)
    rc, out = sh([sys.executable, os.path.join(VERIF, 'tools', 'rs2lean.py'), os.path.join(REPO, 'kurbo', 'src'),
                  os.path.join(LEAN, 'Kurbo', 'Gen', 'Kernel.lean'), '--suffix', '_g', '--status', status_file])
    if rc != 0:
        raise RuntimeError('rs2lean failed:\n' + out)
    rc, out2 = sh([sys.executable, os.path.join(VERIF, 'tools', 'gen_equiv.py'), os.path.join(LEAN, 'Proofs', 'GenEquiv.lean')])
    if rc != 0:
        raise RuntimeError('gen_equiv failed:\n' + out2)
    # Gauss-Legendre tables (constant tables are part of tie (i))
    rc, out3 = sh([sys.executable, os.path.join(VERIF, 'tools', 'gltables.py'), os.path.join(REPO, 'kurbo', 'src', 'common.rs'),
                   os.path.join(LEAN, 'Kurbo', 'Gen', 'GLTables.lean'), '--suffix', '_g'])
    if rc != 0:
        raise RuntimeError('gltables failed:\n' + out3)
    rc, out4 = sh([sys.executable, os.path.join(VERIF, 'tools', 'gen_equiv_gl.py'), os.path.join(LEAN, 'Proofs', 'GenEquivGL.lean')])
    if rc != 0:
        raise RuntimeError('gen_equiv_gl failed:\n' + out4)
    # define_float_funcs! rows (C19)
    rc, out5 = sh([sys.executable, os.path.join(VERIF, 'tools', 'floatfuncs.py'), os.path.join(REPO, 'kurbo', 'src', 'common.rs'),
                   os.path.join(LEAN, 'Kurbo', 'Gen', 'FloatFuncs.lean'), '--suffix', '_g'])
    if rc != 0:
        raise RuntimeError('floatfuncs failed:\n' + out5)
    sh([sys.executable, os.path.join(VERIF, 'tools', 'gen_equiv_ff.py'), os.path.join(LEAN, 'Proofs', 'GenEquivFF.lean')])
    status = json.load(open(status_file))
    # second tier: straight-line functions whose pinned model is hand-written (Shapes/Flatten/Arclen/Quads.lean)
    status2_file = os.path.join(LEAN, '.lake', 'rs2lean_status2.json')
    rc, out6 = sh([sys.executable, os.path.join(VERIF, 'tools', 'rs2lean.py'), os.path.join(REPO, 'kurbo', 'src'),
                   os.path.join(LEAN, 'Kurbo', 'Gen', 'Kernel2.lean'), '--suffix', '_g', '--tier', '2', '--status', status2_file])
    if rc != 0:
        raise RuntimeError('rs2lean --tier 2 failed:\n' + out6)
    rc, out7 = sh([sys.executable, os.path.join(VERIF, 'tools', 'gen_equiv2.py'), os.path.join(LEAN, 'Proofs', 'GenEquiv2.lean')])
    if rc != 0:
        raise RuntimeError('gen_equiv2 failed:\n' + out7)
    status.update({'K2:' + k: v for k, v in json.load(open(status2_file)).items()})
    return status


def ff_equiv_status():
    rc, out = lake_build(['Proofs.GenEquivFF'])
    status = {'FF:floatFuncRows': 'equal', 'FF:floatSignumBody': 'equal'}
    if rc != 0:
        bad = [int(m.group(1)) for m in re.finditer(r'error: Proofs/GenEquivFF\.lean:(\d+):', out)]
        if not bad or 4 in bad or any(b < 5 for b in bad):
            status['FF:floatFuncRows'] = 'proof-failed'
        if not bad or any(b >= 5 for b in bad):
            status['FF:floatSignumBody'] = 'proof-failed'
    return status, out


def lake_build(targets):
    rc, out = sh(['lake', 'build'] + targets, cwd=LEAN, timeout=3000)
    return rc, out


def gen_equiv_status():
    """build Proofs.GenEquiv; returns {item: 'equal' | 'proof-failed'} using the error positions"""
    rc, out = lake_build(['Proofs.GenEquiv'])
    src = open(os.path.join(LEAN, 'Proofs', 'GenEquiv.lean')).read().split('\n')
    thm_at = []   # (line_no, item)
    for i, l in enumerate(src, 1):
        m = re.match(r'theorem ge_\S+ : \((\S+)_g \(K := K\)\)', l)
        if m:
            thm_at.append((i, m.group(1)))
    status = {it: 'equal' for _, it in thm_at}
    if rc != 0:
        bad_lines = [int(m.group(1)) for m in re.finditer(r'error: Proofs/GenEquiv\.lean:(\d+):', out)]
        if not bad_lines:
            # the file (or Gen/Kernel.lean) did not even elaborate: nothing is shown
            for it in status:
                status[it] = 'proof-failed'
            return status, out
        for bl in bad_lines:
            owner = None
            for ln, it in thm_at:
                if ln <= bl:
                    owner = it
            if owner:
                status[owner] = 'proof-failed'
    return status, out


def gen_equiv2_status():
    """build Proofs.GenEquiv2 (second tier); returns {'K2:item': 'equal' | 'proof-failed'}"""
    rc, out = lake_build(['Proofs.GenEquiv2'])
    src = open(os.path.join(LEAN, 'Proofs', 'GenEquiv2.lean')).read().split('\n')
    thm_at = []
    for i, l in enumerate(src, 1):
        m = re.match(r'theorem ge2_\S+ : \((\S+)_g \(K := K\)\)', l)
        if m:
            thm_at.append((i, 'K2:' + m.group(1)))
    status = {it: 'equal' for _, it in thm_at}
    if rc != 0:
        bad_lines = [int(m.group(1)) for m in re.finditer(r'error: Proofs/GenEquiv2\.lean:(\d+):', out)]
        if not bad_lines:
            return {it: 'proof-failed' for it in status}, out
        for bl in bad_lines:
            owner = None
            for ln, it in thm_at:
                if ln <= bl:
                    owner = it
            if owner:
                status[owner] = 'proof-failed'
    return status, out


def gl_equiv_status():
    """build Proofs.GenEquivGL; returns {'GL:glN': 'equal' | 'proof-failed'}"""
    rc, out = lake_build(['Proofs.GenEquivGL'])
    src = open(os.path.join(LEAN, 'Proofs', 'GenEquivGL.lean')).read().split('\n')
    at = [(i, m.group(1)) for i, l in enumerate(src, 1) for m in [re.match(r'theorem ge_(gl\w+) :', l)] if m]
    status = {'GL:' + n: 'equal' for _, n in at}
    if rc != 0:
        bad = [int(m.group(1)) for m in re.finditer(r'error: Proofs/GenEquivGL\.lean:(\d+):', out)]
        if not bad:
            status = {k: 'proof-failed' for k in status}
        for bl in bad:
            owner = None
            for ln, n in at:
                if ln <= bl:
                    owner = n
            if owner:
                status['GL:' + owner] = 'proof-failed'
    return status, out


def kernel_closure(patterns):
    """items matching the patterns, closed under 'body mentions a translated method/function name'"""
    sys.path.insert(0, os.path.join(VERIF, 'tools'))
    from kernel_items import ITEMS
    names = [it['lean'] for it in ITEMS if it['kind'] in ('fn', 'const')]
    txt = open(os.path.join(LEAN, 'Kurbo', 'Kernel.lean')).read()
    bodies = {}
    for m in re.finditer(r'^def (\S+) .*?:=\n(.*?)\n\n', txt, re.S | re.M):
        bodies[m.group(1)] = m.group(2)
    gl_names = ['GL:' + n for n in re.findall(r'^def (gl\w+) :', open(os.path.join(LEAN, 'Kurbo', 'GLTables.lean')).read(), re.M)]
    gl_sel = sorted(n for n in gl_names if any(re.fullmatch(p, n) for p in patterns))
    sel = {n for n in names if any(re.fullmatch(p, n) for p in patterns)}
    changed = True
    while changed:
        changed = False
        for n in list(sel):
            b = bodies.get(n, '')
            for o in names:
                if o in sel:
                    continue
                meth = o.split('.')[-1]
                if re.search(r'(?<![\w])' + re.escape(o) + r'(?![\w])', b) or re.search(r'\.' + re.escape(meth) + r'(?![\w])', b):
                    sel.add(o)
                    changed = True
    # operators: the regenerated bodies apply the PINNED operator instances, so a caller's equation no longer notices a change of the function an
    # operator is bound to; that function's own equation must therefore be an obligation of every property one of whose items applies the operator
    inst = {}
    for it in ITEMS:
        if it['kind'] == 'raw':
            m = re.search(r'instance : (?:HMul|HAdd|HSub) \(([A-Za-z]+) K\) \(([A-Za-z]+)(?: K)?\) .*?:= ⟨(\S+?)⟩', it['text'])
            if m:
                inst[m.group(3)] = (m.group(1), m.group(2))
    defs = {m.group(1): m.group(0) for m in re.finditer(r'^def (\S+) .*?:=\n.*?\n\n', txt, re.S | re.M)}
    for n in list(sel):
        d = defs.get(n, '')
        if re.search(r' [*+\-] ', d):
            for f, (ta, tb) in inst.items():
                if f not in sel and f in names and re.search(r'\b' + ta + r' K\b', d) and (tb == 'K' or re.search(r'\b' + tb + r'\b', d)):
                    sel.add(f)
    ff_sel = [n for n in ('FF:floatFuncRows', 'FF:floatSignumBody') if any(re.fullmatch(p, n) for p in patterns)]
    from kernel_items2 import ITEMS as ITEMS2
    k2_sel = sorted('K2:' + it['lean'] for it in ITEMS2 if it['kind'] == 'fn' and any(re.fullmatch(p, 'K2:' + it['lean']) for p in patterns))
    return sorted(sel) + gl_sel + ff_sel + k2_sel


# theorems of Proofs/Glue.lean (combinations of results of different property files) counted as obligations of the property they complete
GLUE = {'C09': r'^(toQuadsWithin_real|cubic_nearest_within_unconditional|pathSeg_nearest_within_unconditional)',
        'C01': r'^windingInner_', 'C05': r'^(cubic_flatten_vertices_near_cubic|flatten_curveTo_vertices_near_cubic)'}


def _theorems_in(path):
    if not os.path.exists(path):
        return []
    txt = open(path).read()
    txt = re.sub(r'/-.*?-/', '', txt, flags=re.S)
    txt = re.sub(r'--[^\n]*', '', txt)
    return re.findall(r'^\s*(?:protected |private )?theorem\s+([^\s:({\[]+)', txt, re.M)


def glue_theorems(pid):
    if pid not in GLUE:
        return []
    return [t for t in _theorems_in(os.path.join(LEAN, 'Proofs', 'Glue.lean')) if re.match(GLUE[pid], t)]


# further property files of the same property (written in later rounds): every theorem in them is an obligation of that property
EXTRA_FILES = {'C18': ['C18S', 'C18T'], 'C03': ['C03Q'], 'C13': ['C13B'], 'C16': ['C16B', 'C16W', 'C16A', 'C16G'], 'C12': ['C12S'], 'C01': ['C01P'], 'C04': ['C04C', 'C04R'], 'C07': ['C07M'], 'C10': ['C10A'], 'C15': ['C15Q', 'C15D'], 'C11': ['C11E']}


def extra_modules(pid):
    return [m for m in EXTRA_FILES.get(pid, []) if os.path.exists(os.path.join(LEAN, 'Proofs', m + '.lean'))]


def property_theorems(pid):
    """all theorems stated in Proofs/<pid>.lean (helper lemmas live elsewhere), in its extra property files, + the glue theorems that complete this property"""
    out = _theorems_in(os.path.join(LEAN, 'Proofs', pid + '.lean'))
    for m in extra_modules(pid):
        out += _theorems_in(os.path.join(LEAN, 'Proofs', m + '.lean'))
    return out + glue_theorems(pid)


FORBIDDEN = re.compile(r'\bsorry\b|\badmit\b|^\s*axiom\s|native_decide|bv_decide|implemented_by|\bunsafe\s|maxHeartbeats\s+0\b', re.M)


def source_scan(files):
    hits = []
    for f in files:
        if not os.path.exists(f):
            continue
        txt = open(f).read()
        txt = re.sub(r'/-.*?-/', lambda m: '\n' * m.group(0).count('\n'), txt, flags=re.S)
        txt = re.sub(r'--[^\n]*', '', txt)
        for m in FORBIDDEN.finditer(txt):
            hits.append(f'{os.path.relpath(f, VERIF)}:{txt.count(chr(10), 0, m.start()) + 1}:{m.group(0).strip()}')
    return hits


def proof_module_files(pid):
    """transitive closure of Proofs.* / Kurbo.* imports of Proofs/<pid>.lean"""
    seen, todo = set(), [f'Proofs.{pid}'] + [f'Proofs.{m}' for m in extra_modules(pid)] + (['Proofs.Glue'] if glue_theorems(pid) else [])
    while todo:
        m = todo.pop()
        if m in seen:
            continue
        seen.add(m)
        p = os.path.join(LEAN, *m.split('.')) + '.lean'
        if not os.path.exists(p):
            continue
        for im in re.findall(r'^import\s+((?:Proofs|Kurbo)\.[\w.]+)', open(p).read(), re.M):
            todo.append(im)
    return [os.path.join(LEAN, *m.split('.')) + '.lean' for m in sorted(seen)]


def audit_axioms(pid, theorems):
    """#print axioms for every property theorem; returns {thm: [axioms]} and raw output"""
    if not theorems:
        return {}, ''
    path = os.path.join(LEAN, '.lake', f'audit_{pid}.lean')
    with open(path, 'w') as f:
        f.write(f'import Proofs.{pid}\n' + ''.join(f'import Proofs.{m}\n' for m in extra_modules(pid)) + ('import Proofs.Glue\n' if glue_theorems(pid) else '') + 'open Kurbo\n')
        for t in theorems:
            f.write(f'#print axioms Kurbo.{t}\n' if not t.startswith('Kurbo.') else f'#print axioms {t}\n')
    rc, out = sh(['lake', 'env', 'lean', path], cwd=LEAN, timeout=1200)
    res = {}
    # "'Kurbo.foo' depends on axioms: [propext, Classical.choice]"  /  "'Kurbo.foo' does not depend on any axioms"
    for m in re.finditer(r"'(\S+)' depends on axioms: \[([^\]]*)\]", out.replace('\n', ' ')):
        res[m.group(1).split('Kurbo.', 1)[-1]] = [a.strip() for a in m.group(2).split(',') if a.strip()]
    for m in re.finditer(r"'(\S+)' does not depend on any axioms", out):
        res[m.group(1).split('Kurbo.', 1)[-1]] = []
    return res, out


def build_harness(features=None, hooks=False):
    cmd = ['cargo', 'build', '--release', '--offline']
    env = dict(ENV)
    target = os.path.join(HARNESS, 'target')
    if features == 'libm':
        cmd += ['--no-default-features', '--features', 'libm']
        target = os.path.join(HARNESS, 'target-libm')
    rf = []
    if hooks:
        rf.append('--cfg kurbo_verif')
        if features != 'libm':
            target = os.path.join(HARNESS, 'target-hooks')
    if rf:
        env['RUSTFLAGS'] = ' '.join(rf)
    env['CARGO_TARGET_DIR'] = target
    p = subprocess.run(cmd, cwd=HARNESS, stdout=subprocess.PIPE, stderr=subprocess.STDOUT, env=env, timeout=3000)
    out = p.stdout.decode('utf-8', 'replace')
    if p.returncode != 0:
        raise RuntimeError('harness build failed (does /repo still compile?):\n' + out[-4000:])
    return os.path.join(target, 'release', 'kvh')


# ------------------------------------------------------------------ running engines


ENGINE_TIMEOUT = int(os.environ.get('VERIF_ENGINE_TIMEOUT', '900'))
ENGINE_STALL = int(os.environ.get('VERIF_ENGINE_STALL', '45'))        # seconds without a new output line     # seconds per engine process: an engine that runs longer is treated as dead


def _limit_engine():
    import resource
    lim = 12 * 1024 ** 3        # address space: an engine asked for an absurd amount of work dies instead of taking the machine down
    resource.setrlimit(resource.RLIMIT_AS, (lim, lim))


def run_engine(cmd, lines, nproc=1):
    if not lines:
        return []
    data = ('\n'.join(lines) + '\n').encode()
    if nproc <= 1 or len(lines) < 2000:
        tf_in = tempfile.TemporaryFile()
        tf_in.write(data)
        tf_in.seek(0)
        tf_out = tempfile.TemporaryFile()
        tf_err = tempfile.TemporaryFile()
        pr = subprocess.Popen(cmd, stdin=tf_in, stdout=tf_out, stderr=tf_err, preexec_fn=_limit_engine)
        timed_out = False
        t_start = time.time()
        last_size, last_change = -1, time.time()
        while True:
            try:
                pr.wait(timeout=1.0)
                break
            except subprocess.TimeoutExpired:
                size = os.fstat(tf_out.fileno()).st_size
                now = time.time()
                if size != last_size:
                    last_size, last_change = size, now
                # no output line for ENGINE_STALL seconds (one operation never takes that long), or the overall limit: the engine hangs
                if now - last_change > ENGINE_STALL or now - t_start > ENGINE_TIMEOUT:
                    pr.kill()
                    pr.wait()
                    timed_out = True
                    break
        tf_out.seek(0)
        tf_err.seek(0)

        class _P:
            stdout = tf_out.read()
            stderr = tf_err.read() + (b' [engine timeout]' if timed_out else b'')
        p = _P
        outs = p.stdout.decode('utf-8', 'replace').split('\n')
        if outs and outs[-1] == '':
            outs.pop()
        elif outs:
            outs.pop()       # the engine stopped in the middle of a line
        if len(outs) != len(lines):
            # the engine died (abort / stack overflow): find the line
            raise EngineDied(cmd, lines, len(outs), p.stderr.decode('utf-8', 'replace')[-2000:], outs)
        return outs
    # parallel chunks
    chunk = (len(lines) + nproc - 1) // nproc
    procs = []
    for k in range(0, len(lines), chunk):
        part = lines[k:k + chunk]
        tf_in = tempfile.TemporaryFile()
        tf_in.write(('\n'.join(part) + '\n').encode())
        tf_in.seek(0)
        tf_out = tempfile.TemporaryFile()
        pr = subprocess.Popen(cmd, stdin=tf_in, stdout=tf_out, stderr=subprocess.DEVNULL, preexec_fn=_limit_engine)
        procs.append((pr, tf_out, part))
    res = []
    t_end = time.time() + ENGINE_TIMEOUT
    for pr, tf_out, part in procs:
        try:
            pr.wait(timeout=max(1.0, t_end - time.time()))
        except subprocess.TimeoutExpired:
            pr.kill()
            pr.wait()
        tf_out.seek(0)
        outs = tf_out.read().decode('utf-8', 'replace').split('\n')
        if outs and outs[-1] == '':
            outs.pop()
        if len(outs) != len(part):
            raise EngineDied(cmd, part, len(outs), '', outs)
        res.extend(outs)
    return res


class EngineDied(Exception):
    def __init__(self, cmd, lines, n_out, stderr, outs=None):
        self.cmd, self.lines, self.n_out, self.stderr = cmd, lines, n_out, stderr
        self.outs = outs or []
        super().__init__(f'engine {cmd} died after {n_out} of {len(lines)} lines: {stderr[-300:]}')


def run_cases(cases, kvh=KVH, nproc=8, heavy=False, _depth=0, kvh_libm=None):
    """run all lines of all cases through the engines they need; returns list of (case, outs, verdict)"""
    per = {'I': [], 'R': [], 'F': [], 'L': []}
    index = []   # per case: {engine: (start, n)}
    for c in cases:
        ix = {}
        for eng in ('I', 'R', 'F', 'L'):
            if eng in c.need:
                ix[eng] = (len(per[eng]), len(c.lines))
                per[eng].extend(c.lines)
        index.append(ix)
    cmds = {'I': [kvh], 'R': [KMODEL, 'R'], 'F': [KMODEL, 'F'], 'L': [kvh_libm or os.path.join(HARNESS, 'target-libm', 'release', 'kvh')]}
    outs = {}
    died = None
    for eng in ('I', 'R', 'F', 'L'):
        try:
            outs[eng] = run_engine(cmds[eng], per[eng], nproc)
        except EngineDied as ex:
            # an abort in the implementation is itself a finding: locate the line by bisection
            died = (eng, ex)
            outs[eng] = bisect_dead(cmds[eng], per[eng])
    global _JCTX
    _JCTX = (cases, index, outs)
    n = len(cases)
    if heavy and n >= 64 and nproc > 1:
        import multiprocessing as mp
        with mp.get_context('fork').Pool(min(16, max(nproc, 12))) as pool:
            verdicts = pool.map(_judge_idx, range(n), chunksize=max(1, n // 256))
    else:
        verdicts = [_judge_idx(k) for k in range(n)]
    results = []
    followups = []
    for k, (c, ix) in enumerate(zip(cases, index)):
        o = {eng: outs[eng][s:s + m] for eng, (s, m) in ix.items()}
        results.append((c, o, verdicts[k]))
        fu = getattr(c, 'followup', None)
        if fu is not None and verdicts[k] is None and _depth == 0:
            try:
                nc = fu(o)
            except Exception as ex:
                nc = None
                results[-1] = (c, o, f'followup raised {ex!r}')
            if nc is not None:
                followups.append(nc)
    if followups:
        results += run_cases(followups, kvh=kvh, nproc=nproc, heavy=heavy, _depth=1, kvh_libm=kvh_libm)
    return results


_JCTX = None


def _judge_idx(k):
    cases, index, outs = _JCTX
    c, ix = cases[k], index[k]
    o = {eng: outs[eng][s:s + m] for eng, (s, m) in ix.items()}
    try:
        return c.judge(o)
    except Exception as ex:   # a judge must never crash the run silently
        return f'judge raised {ex!r}'


def bisect_dead(cmd, lines):
    """an engine died or hung: keep what it printed, blame the line it was working on (`DIED`), go on after it (at most MAX_DEAD times, then the rest
    is marked DIED-SKIPPED so that a systematic hang cannot take hours)"""
    res = []
    i = 0
    dead = 0
    MAX_DEAD = 12
    while i < len(lines):
        if dead >= MAX_DEAD:
            res.extend(['DIED-SKIPPED'] * (len(lines) - i))
            break
        part = lines[i:i + 4096]
        try:
            res.extend(run_engine(cmd, part, 1))
            i += len(part)
        except EngineDied as ex:
            good = ex.outs[:ex.n_out]
            res.extend(good)
            res.append('DIED')
            dead += 1
            i += len(good) + 1
    return res


# ------------------------------------------------------------------ known findings


def load_known():
    p = os.path.join(VERIF, 'known_findings.json')
    if not os.path.exists(p):
        return []
    return json.load(open(p))


# ------------------------------------------------------------------ replay / evidence


def write_replay(pid, seed, tier, payload):
    d = os.path.join(VERIF, 'replays')
    os.makedirs(d, exist_ok=True)
    h = hashlib.sha1(json.dumps(payload, sort_keys=True).encode()).hexdigest()[:8]
    path = os.path.join(d, f'{pid}-{seed}-{h}.json')
    payload = dict(payload, property=pid, seed=seed, tier=tier, how_to_replay=f'./check {pid} --replay {path}')
    json.dump(payload, open(path, 'w'), indent=1)
    return path


def write_evidence(pid, ev):
    # tools/seedtest.py redirects the evidence of runs against a PATCHED /repo (never committed as evidence of the property)
    d = os.environ.get('VERIF_EVIDENCE_DIR') or os.path.join(VERIF, 'evidence')
    os.makedirs(d, exist_ok=True)
    json.dump(ev, open(os.path.join(d, pid + '.json'), 'w'), indent=1)


# ------------------------------------------------------------------ maker registry (replayable cases)


def maker(registry):
    """decorator: registers a case constructor under its function name; the Case remembers (maker, args)"""
    def deco(fn):
        def wrapped(*args):
            c = fn(*args)
            c.meta['maker'] = fn.__name__
            c.meta['args'] = list(args)
            return c
        registry[fn.__name__] = wrapped
        wrapped.__name__ = fn.__name__
        return wrapped
    return deco


def engine_error(*outs):
    for o in outs:
        if o.startswith('PANIC') or o in ('UNKNOWN-OP', 'BAD-ARGS', 'BAD-ARGS trailing', 'DIED', 'DIED-SKIPPED', 'EMPTY'):
            return True
    return False


# ------------------------------------------------------------------ number generators


def grid(rng, bits=10, shift=3):
    """dyadic rational k/2^shift with |k| < 2^bits, as float"""
    return rng.randint(-(1 << bits) + 1, (1 << bits) - 1) / float(1 << shift)


def small_grid(rng, n=4, shift=0):
    return rng.randint(-n, n) / float(1 << shift)


def generic(rng, scale=100.0):
    return rng.uniform(-scale, scale)


def tparam(rng):
    r = rng.random()
    if r < 0.15:
        return 0.0
    if r < 0.3:
        return 1.0
    if r < 0.4:
        return 0.5
    if r < 0.7:
        return rng.randint(0, 8) / 8.0
    return rng.random()
