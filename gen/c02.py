"""C02 – signed area."""
from .common import *

RULE = ('segments and closed multi-sub-path paths with control points on the dyadic grid k/8 (|k|<1024), control polygons off the axes, '
        'collinear and repeated points: impl compared with the exact rational model (all products exact; the final *1/6, *1/20 and the '
        'running sum give <= 1e-15 of scale^2); generic doubles to 1e-13; metamorphic laws on the implementation (reverse negates, affine '
        'multiplies by det on closed paths, split at t and degree raising leave the area unchanged). non-trivial = distinct op line')
KERNEL_DEPS = [r'(Line|QuadBez|CubicBez|PathSeg)\.signed_area', r'PathSeg\.(reverse|to_cubic|subsegment|start|end)', r'QuadBez\.raise',
               r'Affine\.(mul_PathEl|mul_PathSeg|determinant)']
UNPROVED = ['"= integral of the winding number over the plane" is Green\'s theorem for piecewise polynomial loops: cited, not formalised '
            '(the Green line integral of each segment IS proved)', 'rounding error (compared with tolerance)']
ASSUMPTIONS = ['lawful ordered field semantics']
MAKERS = {}
NPTS = {'L': 2, 'Q': 3, 'C': 4}


def scale2(vals):
    m = max([1.0] + [abs(v) for v in vals])
    return m * m


@maker(MAKERS)
def seg_area(kind, vals, stratum):
    return case_rel_R(f'seg.area {kind} {H(*vals)}', 1e-15 if stratum != 'generic' else 1e-13, scale2(vals), stratum)


def rand_closed_path(rng, how):
    """1-3 closed sub-paths; returns (element string, all coordinates)"""
    parts, coords = [], []

    def pt():
        if how == 'grid':
            p = (grid(rng), grid(rng))
        elif how == 'small':
            p = (small_grid(rng, 4, 1), small_grid(rng, 4, 1))
        else:
            p = (generic(rng), generic(rng))
        coords.extend(p)
        return H(*p)
    for _ in range(rng.randint(1, 3)):
        # a sub-path may also start directly after a ClosePath, without MoveTo: it then starts at the start point of the sub-path just closed
        if not (parts and parts[-1] == 'Z' and rng.random() < 0.3):
            parts.append('M ' + pt())
        for _ in range(rng.randint(1, 6)):
            k = rng.choice('LLQC')
            parts.append(k + ' ' + ' '.join(pt() for _ in range({'L': 1, 'Q': 2, 'C': 3}[k])))
        if rng.random() < 0.85:
            parts.append('Z')
        else:   # closed only implicitly: draw back to the start explicitly
            parts.append('L ' + parts[[i for i, x in enumerate(parts) if x.startswith('M')][-1]][2:])
    return ' '.join(parts), coords


@maker(MAKERS)
def path_area(els, sc, stratum):
    return case_rel_R(f'path.area {els}', 4e-15 if stratum != 'generic' else 1e-12, sc, stratum)


@maker(MAKERS)
def area_meta(a, t, els, sc):
    line = f'path.area_meta {H(*a)} {H(t)} ; {els}'.replace(' ; ', ' ')
    line = f'path.area_meta {H(*a)} {H(t)} {els}'

    def judge(o):
        i = o['I'][0]
        if engine_error(i):
            return 'engine error ' + i
        ar, rev, tr, det, split, raised = floats_of(i)
        am = max([1.0] + [abs(x) for x in a])
        tol = 1e-11 * sc
        if abs(rev + ar) > tol:
            return f'reversing does not negate the area: {ar} vs {rev}'
        if abs(tr - det * ar) > 1e-11 * sc * am * am:
            return f'affine image area != det * area: {tr} vs {det}*{ar}'
        if abs(split - ar) > tol:
            return f'splitting segments at t={t} changes the area: {split} vs {ar}'
        if abs(raised - ar) > tol:
            return f'degree raising changes the area: {raised} vs {ar}'
        return None
    return Case(line, 'I', judge, 'metamorphic', 'oracle')


def generate(rng, tier):
    n = 500 if tier == 'quick' else 30000
    for _ in range(n):
        for how in ('grid', 'small', 'generic'):
            kind = rng.choice('LQC')
            if how == 'generic':
                v = [generic(rng) for _ in range(2 * NPTS[kind])]
            elif how == 'grid':
                v = [grid(rng) for _ in range(2 * NPTS[kind])]
            else:
                v = [small_grid(rng, 3, 0) for _ in range(2 * NPTS[kind])]   # collinear / repeated points are common here
            yield seg_area(kind, v, how)
            els, coords = rand_closed_path(rng, how)
            sc = scale2(coords) * (1 + len(coords) / 8.0)
            yield path_area(els, sc, how)
            if how == 'generic':
                # a small shape far from the origin whose outline stops a hair short of its start point before Z: the closing line is tiny but its
                # contribution to the area (1/2 start x gap) is not
                ox, oy = rng.choice([1000.0, -2500.0, 3e4]), rng.choice([1000.0, 700.0, -3e4])
                w_, h_ = rng.uniform(0.01, 0.5), rng.uniform(0.01, 0.5)
                gap = 10.0 ** rng.uniform(-9, -6.2)
                pts_ = [(ox, oy), (ox + w_, oy), (ox + w_, oy + h_), (ox, oy + h_), (ox + gap * rng.choice([-1, 1]), oy + gap)]
                e2 = 'M ' + H(*pts_[0]) + ' ' + ' '.join('L ' + H(*q) for q in pts_[1:]) + ' Z'
                yield path_area(e2, ox * ox + oy * oy, 'nearly-closed-far')     # rounding of the products x_i * y_j, not of the area, sets the scale
            a = [grid(rng, 4, 2) for _ in range(6)] if rng.random() < 0.5 else [rng.uniform(-3, 3) for _ in range(6)]
            det = a[0] * a[3] - a[1] * a[2]
            if 1e-3 <= abs(det) <= 1e3:
                yield area_meta(a, rng.choice([0.5, 0.25, rng.uniform(0.05, 0.95)]), els, sc)
