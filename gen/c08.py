"""C08 – bounding boxes are tight and extrema are complete."""
from .common import *
from . import oracle as O
from fractions import Fraction as Fr

RULE = ('lines/quadratics/cubics with control points on the grid k/4 (|k|<=40, many shared coordinates, axis-aligned end tangents, double roots, '
        'degenerate point/collinear segments) and generic doubles; paths of 1-8 segments. Oracle (exact over Q): the true range of each '
        'coordinate polynomial on [0,1] (critical points isolated by Sturm sequences) must equal the reported box to 1e-9*extent (containment '
        'AND tightness); every reported extremum lies in (0,1), is a zero of x\' or y\' (to 1e-9), the list is increasing with <= 4 entries, and '
        'every interior sign change of x\'/y\' that is isolated from 0, 1 and the others is reported; control box contains the box. '
        'Quadratic extrema on the grid: implementation == correctly rounded exact model; all: implementation vs Float model (8 ulps). '
        'non-trivial = distinct segment/path')
KERNEL_DEPS = [r'(Line|QuadBez|CubicBez|PathSeg)\.(eval|start|end)', r'Rect\.(from_points|union_pt|union|abs)']
UNPROVED = ['rounding near double roots of the derivative (compared with tolerance; counts only required for isolated sign changes)']
ASSUMPTIONS = ['uses the quadratic solver theorem of C15; analysis over the reals']
MAKERS = {}
HEAVY_JUDGE = True
NPTS = {'L': 2, 'Q': 3, 'C': 4}


def pts_of(vals):
    return [(vals[i], vals[i + 1]) for i in range(0, len(vals), 2)]


def check_box(box, pts_lists, tol):
    x0, y0, x1, y1 = box
    lo_x = lo_y = hi_x = hi_y = None
    for pts in pts_lists:
        px, py = O.seg_polys(pts)
        a, b = O.coord_range_exact(px)
        c, d = O.coord_range_exact(py)
        lo_x = a if lo_x is None else min(lo_x, a)
        hi_x = b if hi_x is None else max(hi_x, b)
        lo_y = c if lo_y is None else min(lo_y, c)
        hi_y = d if hi_y is None else max(hi_y, d)
    want = [float(lo_x), float(lo_y), float(hi_x), float(hi_y)]
    for name, g, w in zip(('x0', 'y0', 'x1', 'y1'), box, want):
        if abs(g - w) > tol:
            side = 'does not contain the curve' if (name in ('x0', 'y0') and g > w) or (name in ('x1', 'y1') and g < w) else 'is not tight'
            return f'bounding box {side}: {name}={g!r}, true extreme {w!r}'
    return None


@maker(MAKERS)
def seg_box(kind, vals, stratum):
    lines = [f'seg.bbox {kind} {H(*vals)}', f'seg.extrema {kind} {H(*vals)}']
    pts = pts_of(vals)
    ext = max(1e-9, max(abs(v) for v in vals))

    def judge(o):
        I, F = o['I'], o['F']
        if engine_error(*I):
            return f'engine error {I}'
        box = floats_of(I[0])
        v = check_box(box, [pts], 1e-9 * ext)
        if v:
            return v
        ex = floats_of(' '.join(I[1].split()[1:]))
        if len(ex) > 4 or (kind == 'Q' and len(ex) > 2) or (kind == 'L' and ex):
            return f'too many extrema: {ex}'
        if any(not (0.0 < t < 1.0) for t in ex):
            return f'extremum outside (0,1): {ex}'
        if any(a > b for a, b in zip(ex, ex[1:])):
            return f'extrema not in increasing order: {ex}'
        px, py = O.seg_polys(pts)
        dx, dy = O.pderiv(px), O.pderiv(py)
        for t in ex:
            vx = abs(float(O.peval(dx, Fr(t)))) if dx else 0.0
            vy = abs(float(O.peval(dy, Fr(t)))) if dy else 0.0
            if min(vx, vy) > 1e-7 * ext:
                return f'reported extremum t={t!r} is a zero of neither x\' nor y\' (|x\'|={vx:g}, |y\'|={vy:g})'
        # completeness: isolated interior sign changes
        for d in (dx, dy):
            if not d:
                continue
            roots = [(lo + hi) / 2 for lo, hi in O.isolate_roots(d, Fr(0), Fr(1), Fr(1, 2 ** 60))]
            for k, r in enumerate(roots):
                if not (Fr(1, 10 ** 6) < r < 1 - Fr(1, 10 ** 6)):
                    continue
                others = [abs(r - s) for j, s in enumerate(roots) if j != k]
                if others and min(others) < Fr(1, 10 ** 6):
                    continue
                # a sign change? (simple root)
                e = Fr(1, 10 ** 7)
                if O.sign(O.peval(d, r - e)) * O.sign(O.peval(d, r + e)) >= 0:
                    continue
                if not any(abs(Fr(t) - r) < Fr(1, 10 ** 8) for t in ex):
                    return f'interior sign change of a velocity component at t={float(r)!r} is not among the extrema {ex}'
        # transcription
        for a, b in zip(I, F):
            if not cmp_ulps(a, b, 8, 1e-13 * ext):
                return f'CORR impl != model@Float impl={a} model={b}'
        return None
    return Case(lines, 'IF', judge, stratum, 'oracle')


@maker(MAKERS)
def quad_extrema_exact(vals):
    """quadratic extrema on the grid are one exact division: impl == RN(exact model)"""
    return case_exact_R(f'seg.extrema Q {H(*vals)}', 'grid-quad-exact')


@maker(MAKERS)
def path_box(els, stratum):
    els = [tuple(tuple(x) if isinstance(x, list) else x for x in el) for el in els]
    s = ' '.join(el[0] + (' ' + ' '.join(H(*p) for p in el[1:]) if len(el) > 1 else '') for el in els)
    lines = [f'path.bbox {s}', f'path.cbox {s}']
    ext = max([1e-9] + [abs(c) for el in els for p in el[1:] for c in p])

    def judge(o):
        I, F = o['I'], o['F']
        if engine_error(*I):
            return f'engine error {I}'
        segs = O.path_segments(els)
        box, cbox = floats_of(I[0]), floats_of(I[1])
        if segs:
            v = check_box(box, segs, 1e-9 * ext)
            if v:
                return 'path ' + v
            if not (cbox[0] <= box[0] + 1e-12 * ext and cbox[1] <= box[1] + 1e-12 * ext and cbox[2] >= box[2] - 1e-12 * ext and cbox[3] >= box[3] - 1e-12 * ext):
                return f'control box {cbox} does not contain the bounding box {box}'
        for a, b in zip(I, F):
            if not cmp_ulps(a, b, 8, 1e-13 * ext):
                return f'CORR impl != model@Float impl={a} model={b}'
        return None
    return Case(lines, 'IF', judge, stratum, 'oracle')


def gpt(rng, how):
    if how == 'grid':
        return (rng.randint(-40, 40) / 4.0, rng.randint(-40, 40) / 4.0)
    if how == 'shared':
        return (float(rng.randint(-2, 2)), float(rng.randint(-2, 2)))
    return (rng.uniform(-10, 10), rng.uniform(-10, 10))


def generate(rng, tier):
    n = 250 if tier == 'quick' else 10000
    for _ in range(n):
        for how in ('grid', 'shared', 'generic'):
            kind = rng.choice('LQQCCC')
            vals = [c for _ in range(NPTS[kind]) for c in gpt(rng, how)]
            yield seg_box(kind, vals, f'{how}-{kind}')
            if kind == 'Q' and how != 'generic':
                yield quad_extrema_exact(vals)
        # axis-aligned end tangents: root of the derivative exactly 0 or 1
        p0, p3 = gpt(rng, 'grid'), gpt(rng, 'grid')
        p1 = (p0[0], p0[1] + rng.randint(1, 8) / 2.0)
        p2 = (p3[0] + rng.randint(-8, 8) / 2.0, p3[1])
        yield seg_box('C', [*p0, *p1, *p2, *p3], 'axis-aligned-end-tangent')
        yield seg_box('Q', [*p0, *p1, *p3], 'axis-aligned-end-tangent')
        # paths
        how = rng.choice(['grid', 'generic', 'shared'])
        els = [('M', gpt(rng, how))]
        for _ in range(rng.randint(0, 8)):
            k = rng.choice('LQCMZ') if len(els) > 1 else rng.choice('LQC')
            els.append((k,) + tuple(gpt(rng, how) for _ in range({'L': 1, 'Q': 2, 'C': 3, 'M': 1, 'Z': 0}[k])))
        yield path_box(els, f'path-{how}')
