#!/bin/bash
# seedverify.sh <ID> <round> [k]: confirm a seeded change independently of the agent that wrote it, in a fresh scratch worktree:
# the patch applies, the crate's whole suite (unit + doc tests) passes with it, the demonstration exits 1 with it and 0 without it.
# Writes <src>/verify.json and removes the worktree.  src = /tmp/seed<round>_out/<ID>/<k>
ID=$1; RND=$2; K=${3:-1}
SRC=/tmp/seed${RND}_out/$ID/$K
WT=/tmp/sv_${ID}_$K
export CARGO_NET_OFFLINE=true CARGO_TARGET_DIR=/tmp/sv_target
git -C /repo worktree remove --force $WT 2>/dev/null
git -C /repo worktree add -q --detach $WT HEAD || exit 2
cd $WT
res() { echo "{\"applies\": $1, \"tests_pass\": $2, \"demo_exit_changed\": $3, \"demo_exit_unchanged\": $4, \"unit\": \"$5\", \"doc\": \"$6\"}" > $SRC/verify.json; cat $SRC/verify.json; }
if ! git apply $SRC/patch.diff; then res false false -1 -1 "" ""; cd /; git -C /repo worktree remove --force $WT; exit 1; fi
mkdir -p kurbo/examples; cp $SRC/demo.rs kurbo/examples/seed_demo.rs
T=$(cargo test --workspace --offline -j 8 2>&1 | grep '^test result' )
UNIT=$(echo "$T" | sed -n 1p | sed 's/;.*finished.*//'); DOC=$(echo "$T" | tail -1 | sed 's/;.*finished.*//')
NFAIL=$(echo "$T" | grep -c 'ok\.' ); NLINES=$(echo "$T" | wc -l)
PASS=false; [ "$NFAIL" = "$NLINES" ] && [ "$NLINES" -ge 2 ] && PASS=true
cargo run --offline -q --example seed_demo >/dev/null 2>&1; E1=$?
git checkout -q kurbo/src
cargo run --offline -q --example seed_demo >/dev/null 2>&1; E0=$?
res true $PASS $E1 $E0 "$UNIT" "$DOC"
cd /; git -C /repo worktree remove --force $WT
