"""Second tier of translated items (tie (i) for the straight-line parts of the HAND-WRITTEN model files).

Same format as kernel_items.py.  The pinned side of each equation is the hand-written definition in
lean/Kurbo/{Shapes,Flatten,Arclen,Quads,Curve}.lean (written by reading the Rust, validated by the correspondence);
the generated side is lean/Kurbo/Gen/Kernel2.lean, re-translated from the working tree of /repo on every run;
Proofs/GenEquiv2.lean proves `f_g = f` for each."""
ITEMS = []


def fn(file, impl, name, lean, sig, nth=0):
    ITEMS.append(dict(kind='fn', file=file, impl=impl, fn=name, lean=lean, sig=sig, nth=nth))


def raw(text):
    ITEMS.append(dict(kind='raw', text=text))


V, P, R, A = 'Vec2 K', 'Point K', 'Rect K', 'Affine K'
T, CI, CS, EL, RR, RRR, ARC = 'Triangle K', 'Circle K', 'CircleSegment K', 'Ellipse K', 'RoundedRect K', 'RoundedRectRadii K', 'Arc K'
Q = 'QuadBez K'

# triangle.rs
fn('triangle.rs', 'impl Triangle {', 'area', 'Triangle.area', f'(self : {T}) : K')
fn('triangle.rs', 'impl Shape for Triangle', 'perimeter', 'Triangle.perimeter', f'(self : {T}) : K')
fn('triangle.rs', 'impl Shape for Triangle', 'bounding_box', 'Triangle.bounding_box', f'(self : {T}) : {R}')
# circle.rs
fn('circle.rs', 'impl Shape for Circle', 'area', 'Circle.area', f'(self : {CI}) : K')
fn('circle.rs', 'impl Shape for Circle', 'perimeter', 'Circle.perimeter', f'(self : {CI}) : K')
fn('circle.rs', 'impl Shape for Circle', 'winding', 'Circle.winding', f'(self : {CI}) (pt : {P}) : Int')
fn('circle.rs', '', 'point_on_circle', 'pointOnCircle', f'(center : {P}) (radius angle : K) : {P}')
fn('circle.rs', 'impl CircleSegment {', 'outer_arc', 'CircleSegment.outer_arc', f'(self : {CS}) : {ARC}')
fn('circle.rs', 'impl CircleSegment {', 'inner_arc', 'CircleSegment.inner_arc', f'(self : {CS}) : {ARC}')
fn('circle.rs', 'impl Shape for CircleSegment', 'area', 'CircleSegment.area', f'(self : {CS}) : K')
fn('circle.rs', 'impl Shape for CircleSegment', 'perimeter', 'CircleSegment.perimeter', f'(self : {CS}) : K')
fn('circle.rs', 'impl Shape for CircleSegment', 'winding', 'CircleSegment.winding', f'(self : {CS}) (pt : {P}) : Int')
# affine.rs / ellipse.rs / arc.rs
fn('affine.rs', 'impl Affine {', 'svd', 'Affine.svd', f'(self : {A}) : {V} × K')
fn('ellipse.rs', 'impl Ellipse {', 'private_new', 'Ellipse.private_new', f'(center : {V}) (scale_x scale_y x_rotation : K) : {EL}')
fn('ellipse.rs', 'impl Ellipse {', 'center', 'Ellipse.center', f'(self : {EL}) : {P}')
fn('ellipse.rs', 'impl Mul<Ellipse> for Affine', 'mul', 'Affine.mul_Ellipse', f'(self : {A}) (other : {EL}) : {EL}')
raw(f'instance : HMul ({A}) ({EL}) ({EL}) := ⟨Affine.mul_Ellipse⟩')
fn('ellipse.rs', 'impl Ellipse {', 'radii', 'Ellipse.radii', f'(self : {EL}) : {V}')
fn('ellipse.rs', 'impl Ellipse {', 'radii_and_rotation', 'Ellipse.radii_and_rotation', f'(self : {EL}) : {V} × K')
fn('ellipse.rs', 'impl Shape for Ellipse', 'area', 'Ellipse.area', f'(self : {EL}) : K')
fn('ellipse.rs', 'impl Shape for Ellipse', 'winding', 'Ellipse.winding', f'(self : {EL}) (pt : {P}) : Int')
fn('ellipse.rs', 'impl Shape for Ellipse', 'bounding_box', 'Ellipse.bounding_box', f'(self : {EL}) : {R}')
fn('arc.rs', '', 'rotate_pt', 'rotatePt', f'(pt : {V}) (angle : K) : {V}')
fn('arc.rs', '', 'sample_ellipse', 'sampleEllipse', f'(radii : {V}) (x_rotation angle : K) : {V}')
fn('arc.rs', 'impl Mul<Arc> for Affine', 'mul', 'Affine.mul_Arc', f'(self : {A}) (arc : {ARC}) : {ARC}')
# rounded_rect*.rs
fn('rounded_rect_radii.rs', 'impl RoundedRectRadii {', 'abs', 'RoundedRectRadii.abs', f'(self : {RRR}) : {RRR}')
fn('rounded_rect_radii.rs', 'impl RoundedRectRadii {', 'clamp', 'RoundedRectRadii.clamp', f'(self : {RRR}) (max : K) : {RRR}')
# quadbez.rs: flattening kernel
fn('quadbez.rs', '', 'approx_parabola_integral', 'approxParabolaIntegral', '(x : K) : K')
fn('quadbez.rs', '', 'approx_parabola_inv_integral', 'approxParabolaInvIntegral', '(x : K) : K')
fn('quadbez.rs', 'impl QuadBez {', 'determine_subdiv_t', 'QuadBez.determine_subdiv_t', f'(self : {Q}) (params : FlattenParams K) (x : K) : K')
fn('quadbez.rs', 'impl ParamCurveArclen for QuadBez', 'arclen', 'QuadBez.arclen', f'(self : {Q}) (_accuracy : K) : K')
# line.rs
fn('line.rs', 'impl Line {', 'crossing_point', 'Line.crossing_point', f'(self other : Line K) : Option ({P})')
