#!/bin/sh
# mkscratch.sh <name>: scratch copy of the Lean project (with its build output) for a proof-writing helper: /tmp/lw_<name>
set -e
d=/tmp/lw_$1
rm -rf "$d"
cp -r /verif/lean "$d"
echo "$d"
