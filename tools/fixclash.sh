#!/bin/bash
# iterate: build Proofs, on "environment already contains 'Kurbo.X' from Proofs.Lemmas.A" while importing B: rename X in B's property family files
cd /verif/lean
for i in $(seq 1 60); do
  out=$(lake build Proofs 2>&1 | grep "environment already contains" | head -1)
  [ -z "$out" ] && { echo done; break; }
  mod=$(echo "$out" | sed -E "s/.*import (Proofs[A-Za-z0-9_.]*) failed.*/\1/")
  name=$(echo "$out" | sed -E "s/.*contains '([^']*)'.*/\1/")
  short=${name##*.}
  fam=$(echo "$mod" | grep -oE "C[0-9][0-9]" | head -1)
  pre=$(echo $fam | tr 'C' 'c')_
  echo "clash: $name in $mod -> ${pre}${short}"
  files=$(ls Proofs/$fam.lean Proofs/Lemmas/$fam*.lean 2>/dev/null)
  perl -pi -e "s/(?<![A-Za-z0-9_.'])\Q$short\E(?![A-Za-z0-9_'])/${pre}${short}/g" $files
done
