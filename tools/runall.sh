#!/bin/bash
# runall.sh [tier]: every quick (or thorough) check on the working tree of /repo, one after the other; evidence/ is rewritten
cd /verif
for i in 01 02 03 04 05 06 07 08 09 10 11 12 13 14 15 16 17 18 19 20; do
  out=$(flock /tmp/repo.lock ./check C$i ${1:-quick} 2>&1); rc=$?
  echo "C$i exit $rc | $(echo "$out" | grep 'quick:\|thorough:' | tail -1)"
  echo "$out" | grep '^VIOLATION\|^KNOWN-FINDING\|TIE-DEGRADED\|Traceback' | cut -c1-300 | head -8
done
