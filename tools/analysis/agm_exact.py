# exact-arithmetic (80-digit) evaluation of agm_elliptic_perimeter, old (divide by a_n) and repaired (divide by a_{n+1}).
# For a fixed ellipse the result depends only on the exit pass n; the ratio |true - result| / accuracy is largest at the
# smallest accuracy that still stops at pass n: accuracy_n = 2 pi x term_n / g_n.  Worst ratio = max over n (AGM branch only:
# accuracy_n < kummer range; accuracy_n within 1e-12..1 x size as in the property) and over aspects.
import random, sys
from decimal import Decimal as D, getcontext
getcontext().prec = 90
def _pi():
    # Machin: pi = 16 atan(1/5) - 4 atan(1/239)
    def atan_inv(n):
        x = D(1) / n; t = x; s = x; k = 1; n2 = n * n
        while abs(t) > D(10) ** -100:
            t = -t / n2; k += 2; s += t / k
        return s
    return 16 * atan_inv(5) - 4 * atan_inv(239)
class mp:
    pi = _pi()
    mpf = D
    sqrt = staticmethod(lambda v: D(v).sqrt())
    log10 = staticmethod(lambda v: D(v).log10())
    nstr = staticmethod(lambda v, n: f'{float(v):.{n}g}')
def kummer_range(x, y):
    h = ((x - y) / (x + y)) ** 2
    return mp.pi * mp.mpf('0.00101416479131503') * h ** 7 * (x + y)
def true_perimeter(x, y):
    """the AGM formula run to convergence (DLMF 19.8.6); cross-checked against Kummer's series below"""
    s, a, g = D(1), D(1), y / x
    c = (1 - g * g).sqrt(); mul = D('0.5')
    while c > D(10) ** -80:
        s -= mul * c * c
        mul *= 2; c = (a - g) / 2; a, g = (a + g) / 2, (a * g).sqrt()
    return 2 * mp.pi * x / a * s
def kummer_series(x, y):
    h = ((x - y) / (x + y)) ** 2
    coef, tot, n, hn = D(1), D(0), 0, D(1)     # coef = binom(1/2, n)^2
    while True:
        t = coef * hn
        tot += t
        if t < D(10) ** -75: break
        b = (D('0.5') - n) / (n + 1)           # binom(1/2,n+1) = binom(1/2,n) (1/2 - n)/(n+1)
        coef *= b * b; hn *= h; n += 1
    return mp.pi * (x + y) * tot
def stages(x, y, nmax=40):
    """yield (n, accuracy_n, result_old, result_new, sum_exit)"""
    s, a, g = mp.mpf(1), mp.mpf(1), y / x
    c = mp.sqrt(1 - g * g); mul = mp.mpf('0.5')
    for n in range(nmax):
        term = mul * c * c
        s -= term
        accn = 2 * mp.pi * x * term / g
        se = s - term
        yield n, accn, 2 * mp.pi * x / a * se, 2 * mp.pi * x / ((a + g) / 2) * se, se
        mul *= 2; c = (a - g) / 2; a, g = (a + g) / 2, mp.sqrt(a * g)
        if c < mp.mpf(10) ** -60: break
def scan(aspects):
    worst_old = worst_new = (mp.mpf(0),)
    worst_new_signed_low = (mp.mpf(0),)   # overshoot (result > true)
    for asp in aspects:
        x, y = mp.mpf(asp), mp.mpf(1)
        T = true_perimeter(x, y); R = kummer_range(x, y)
        for n, accn, ro, rn, _ in stages(x, y):
            if not (accn < R): continue            # Kummer branch would be taken
            if accn > x or accn < mp.mpf('1e-12') * x: continue
            eo, en = (T - ro) / accn, (T - rn) / accn
            if abs(eo) > worst_old[0]: worst_old = (abs(eo), asp, n, accn)
            if abs(en) > worst_new[0]: worst_new = (abs(en), asp, n, accn, en)
            if -en > worst_new_signed_low[0]: worst_new_signed_low = (-en, asp, n, accn)
    return worst_old, worst_new, worst_new_signed_low
if __name__ == '__main__':
    for asp in (2, 10, 50):
        print('reference check aspect', asp, 'AGM-to-convergence vs Kummer series: rel diff', mp.nstr(abs(true_perimeter(D(asp), D(1)) / kummer_series(D(asp), D(1)) - 1), 3))
    rng = random.Random(11)
    grid = [D(10) ** (D(k) / 400) for k in range(121, 2401)]   # 2 .. 1e6, 400 per decade
    grid += [mp.mpf(2), mp.mpf(10) ** 6] + [D(10) ** D(repr(rng.uniform(0.30103, 6))) for _ in range(2000)]
    wo, wn, wl = scan(grid)
    f = lambda t: tuple(mp.nstr(v, 8) if isinstance(v, D) else v for v in t)
    print('aspects', len(grid))
    print('OLD      worst |true-result|/accuracy, aspect, exit pass n, accuracy/y:', f(wo))
    print('REPAIRED worst |true-result|/accuracy, aspect, exit pass n, accuracy/y, signed:', f(wn))
    print('REPAIRED worst overshoot (result above true)/accuracy:', f(wl))
    # low aspects 1..2 as well (AGM branch reachable there only with tiny accuracy)
    wo, wn, wl = scan([mp.mpf(1) + mp.mpf(k) / 200 for k in range(1, 200)])
    print('aspect 1..2: OLD', f(wo)); print('aspect 1..2: REPAIRED', f(wn), 'overshoot', f(wl))
    # the witness of the known finding
    x, y, acc = mp.mpf('261.4053129846783'), mp.mpf('0.8946735838777966'), mp.mpf('0.6945550060856879')
    T = true_perimeter(x, y)
    for n, accn, ro, rn, _ in stages(x, y):
        if accn <= acc:
            print('witness: exit pass', n, 'old err/acc', mp.nstr((T - ro) / acc, 8), 'repaired err/acc', mp.nstr((T - rn) / acc, 8)); break
    # margin 1 - ratio of the repaired recurrence at the adversarial accuracies, and random accuracies as the earlier analysis sampled them
    m = None
    for asp in grid:
        x, y = D(asp), D(1); T = true_perimeter(x, y); R = kummer_range(x, y)
        for n, accn, ro, rn, _ in stages(x, y):
            if accn < R and D('1e-12') * x <= accn <= x:
                r = (T - rn) / accn
                if m is None or 1 - r < m[0]: m = (1 - r, asp, n, accn / x)
    print('REPAIRED smallest margin 1 - ratio (adversarial accuracy = smallest accuracy that stops at pass n): %.3e at aspect %.6g, n=%d, accuracy/size=%.3e' % tuple(float(v) for v in m))
    cnt = miss_o = miss_n = 0; wo = wn = D(0)
    for _ in range(40000):
        asp = D(10) ** D(repr(rng.uniform(0.30103, 6))); x, y = asp, D(1)
        acc = D(10) ** D(repr(rng.uniform(-12, 0))) * x
        if not acc < kummer_range(x, y): continue
        T = true_perimeter(x, y)
        for n, accn, ro, rn, _ in stages(x, y):
            if accn <= acc:
                cnt += 1; eo, en = (T - ro) / acc, (T - rn) / acc
                miss_o += eo > 1; miss_n += en > 1; wo = max(wo, eo); wn = max(wn, en)
                assert en >= 0
                break
    print('random accuracies (log-uniform 1e-12..1 x size), AGM-branch cases %d: OLD misses %d worst %.6f; REPAIRED misses %d worst %.6f' % (cnt, miss_o, wo, miss_n, wn))
