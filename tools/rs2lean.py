#!/usr/bin/env python3
"""rs2lean: translate the straight-line arithmetic kernel of kurbo (a small Rust subset) into Lean 4
definitions that are generic in `[Scalar K]`.

Usage:  rs2lean.py <repo-src-dir> <out.lean> [--suffix _g] [--module-ns Kurbo] [--status status.json]

* With suffix ''   the output is the *pinned model* (committed as lean/Kurbo/Kernel.lean).
* With suffix '_g' the output is lean/Kurbo/Gen/Kernel.lean, regenerated from the working tree on
  every run; Proofs/GenEquiv.lean proves each `f_g = f`.

The list of items lives in tools/kernel_items.py.
"""
import re, sys, json, os
from fractions import Fraction

TOK = re.compile(r"""
  (?P<ws>\s+|//[^\n]*|/\*.*?\*/) |
  (?P<num>\d[\d_]*\.\d[\d_]*(?:[eE][+-]?\d+)?(?:_?f64)?|\d[\d_]*\.(?![\d.A-Za-z_])|\d[\d_]*[eE][+-]?\d+(?:_?f64)?|\d[\d_]*(?:_?f64|_?usize|_?i32|_?u32|_?u64|_?i64)?) |
  (?P<id>[A-Za-z_][A-Za-z0-9_]*) |
  (?P<life>'[a-z_]+) |
  (?P<op>\.\.=|\.\.|::|->|=>|==|!=|<=|>=|&&|\|\||\+=|-=|\*=|/=|[-+*/%<>=!&|^.,;:(){}\[\]#?])
""", re.X | re.S)


class Untranslatable(Exception):
    pass


def tokenize(src):
    out = []
    i = 0
    while i < len(src):
        m = TOK.match(src, i)
        if not m:
            raise Untranslatable(f"bad char {src[i:i+20]!r}")
        i = m.end()
        if m.lastgroup == 'ws':
            continue
        out.append((m.lastgroup, m.group()))
    out.append(('eof', ''))
    return out


class P:
    def __init__(s, toks):
        s.t = toks
        s.i = 0
        s.nostruct = False

    def peek(s, k=0):
        return s.t[s.i + k]

    def next(s):
        x = s.t[s.i]
        s.i += 1
        return x

    def accept(s, v):
        if s.peek()[1] == v:
            s.i += 1
            return True
        return False

    def expect(s, v):
        if not s.accept(v):
            ctx = ' '.join(x[1] for x in s.t[max(0, s.i - 8):s.i + 4])
            raise Untranslatable(f"expected {v!r} got {s.peek()} near: {ctx}")

    # ---- blocks
    def block(s):
        s.expect('{')
        stmts = []
        tail = None
        while not s.accept('}'):
            if s.peek()[1] == 'let' or (s.peek()[1] == 'const' and s.peek(1)[0] == 'id'):
                s.next()
                s.accept('mut')
                pat = s.pattern()
                if s.accept(':'):
                    s.type_()
                s.expect('=')
                e = s.expr()
                s.expect(';')
                stmts.append(('let', pat, e))
            elif s.peek()[1] == 'fn' and s.peek(1)[0] == 'id':
                # a helper function local to the body: `fn name(a: T, b: U) -> R { … }`  ==>  let name := fun a b => …
                s.next()
                name = s.next()[1]
                s.expect('(')
                params = []
                while not s.accept(')'):
                    s.accept('mut')
                    pn = s.next()[1]
                    s.expect(':')
                    params.append((pn, s.type_text((',', ')'))))
                    s.accept(',')
                if s.accept('->'):
                    s.type_()
                body = s.block()
                stmts.append(('let', ('pvar', name), ('lambda', params, body)))
            elif s.peek()[1] == 'return':
                s.next()
                e = s.expr()
                s.accept(';')
                stmts.append(('return', e))
            else:
                e = s.expr()
                if s.peek()[1] in ('+=', '-=', '*=', '/=', '='):
                    op = s.next()[1]
                    rhs = s.expr()
                    s.expect(';')
                    stmts.append(('assign', op, e, rhs))
                elif s.accept(';'):
                    stmts.append(('expr', e))
                elif s.peek()[1] == '}':
                    tail = e
                else:
                    stmts.append(('expr', e))
        return ('block', stmts, tail)

    def type_(s):
        depth = 0
        while True:
            k, v = s.peek()
            if v in ('=', ';', ')', ',', '{') and depth == 0:
                return
            if v in ('<', '(', '['):
                depth += 1
            if v in ('>', ')', ']'):
                depth -= 1
            s.next()

    def type_text(s, stops):
        depth = 0
        out = []
        while True:
            k, v = s.peek()
            if v in stops and depth == 0:
                return ' '.join(out)
            if v in ('<', '(', '['):
                depth += 1
            if v in ('>', ')', ']'):
                depth -= 1
            out.append(v)
            s.next()

    def pattern(s):
        if s.accept('('):
            ps = []
            while not s.accept(')'):
                ps.append(s.pattern())
                s.accept(',')
            return ('ptuple', ps)
        if s.accept('['):
            ps = []
            while not s.accept(']'):
                ps.append(s.pattern())
                s.accept(',')
            return ('parray', ps)
        k, v = s.next()
        path = [v]
        while s.accept('::'):
            path.append(s.next()[1])
        if k == 'id' and s.peek()[1] == '{':   # struct pattern  Rect { x0, y0, .. }
            s.next()
            fs = []
            while not s.accept('}'):
                if s.accept('..'):
                    continue
                f = s.next()[1]
                if s.accept(':'):
                    fs.append((f, s.pattern()))
                else:
                    fs.append((f, ('pvar', f)))
                s.accept(',')
            return ('pstruct', path, fs)
        if k == 'id' and s.peek()[1] == '(':   # tuple-struct / enum pattern
            s.next()
            ps = []
            while not s.accept(')'):
                ps.append(s.pattern())
                s.accept(',')
            return ('pctor', path, ps)
        if len(path) > 1:
            return ('pctor', path, [])
        return ('pvar', v)

    PREC = {'||': 1, '&&': 2, '==': 3, '!=': 3, '<': 3, '>': 3, '<=': 3, '>=': 3, '..': 0.5, '^': 2.5,
            '+': 5, '-': 5, '*': 6, '/': 6, '%': 6, 'as': 7}

    def expr(s, minp=0):
        lhs = s.unary()
        while True:
            k, v = s.peek()
            if v == 'as' and s.PREC['as'] >= minp:
                s.next()
                ty = s.next()[1]
                lhs = ('as', lhs, ty)
                continue
            if k == 'op' and v in s.PREC and s.PREC[v] >= minp:
                s.next()
                rhs = s.expr(s.PREC[v] + 0.1)
                lhs = ('bin', v, lhs, rhs)
            else:
                break
        return lhs

    def unary(s):
        if s.accept('-'):
            return ('neg', s.unary())
        if s.accept('!'):
            return ('not', s.unary())
        if s.accept('*'):
            return s.unary()      # deref
        if s.accept('&'):
            s.accept('mut')
            return s.unary()
        return s.postfix(s.atom())

    def args(s):
        a = []
        old = s.nostruct
        s.nostruct = False
        while not s.accept(')'):
            a.append(s.expr())
            s.accept(',')
        s.nostruct = old
        return a

    def postfix(s, e):
        while True:
            if s.peek()[1] == '.' and s.peek(1)[0] in ('id', 'num'):
                s.next()
                k, v = s.next()
                if k == 'num':
                    # `.0` tuple index; `.0.1` lexes as num '0.1'
                    for part in v.split('.'):
                        if part != '':
                            e = ('tidx', e, int(part))
                    continue
                if s.peek()[1] == '::':   # turbofish
                    s.next()
                    s.expect('<')
                    d = 1
                    while d:
                        t = s.next()[1]
                        d += (t == '<') - (t == '>')
                if s.accept('('):
                    e = ('mcall', e, v, s.args())
                else:
                    e = ('field', e, v)
            elif s.peek()[1] == '[':
                s.next()
                ix = s.expr()
                s.expect(']')
                e = ('index', e, ix)
            elif s.peek()[1] == '(' and e[0] in ('path',):
                s.next()
                e = ('call', e, s.args())
            elif s.peek()[1] == '?':
                raise Untranslatable("? operator")
            else:
                return e

    def atom(s):
        k, v = s.next()
        if k == 'num':
            return ('num', v)
        if v == '(':
            old = s.nostruct
            s.nostruct = False
            try:
                if s.accept(')'):
                    return ('tuple', [])
                es = [s.expr()]
                if s.accept(')'):
                    return ('paren', es[0])
                while s.accept(','):
                    if s.peek()[1] == ')':
                        break
                    es.append(s.expr())
                s.expect(')')
                return ('tuple', es)
            finally:
                s.nostruct = old
        if v == '[':
            es = []
            while not s.accept(']'):
                es.append(s.expr())
                s.accept(',')
            return ('array', es)
        if v == 'if':
            return s.if_()
        if v == 'match':
            scrut = s.expr_nostruct()
            s.expect('{')
            arms = []
            while not s.accept('}'):
                pats = [s.pattern()]
                while s.accept('|'):
                    pats.append(s.pattern())
                s.expect('=>')
                if s.peek()[1] == '{':
                    body = s.block()
                else:
                    body = ('block', [], s.expr())
                s.accept(',')
                arms.append((pats, body))
            return ('match', scrut, arms)
        if v == '{':
            s.i -= 1
            return s.block()
        if v == '||':
            body = s.expr()
            return ('lambda', [], body)
        if v == '|':
            # closure `|a, b: f64| expr` (non-capturing-by-mutation closures only: the body is an expression or a block)
            params = []
            while not s.accept('|'):
                s.accept('mut')
                kk, name = s.next()
                if kk != 'id':
                    raise Untranslatable("closure parameter pattern")
                ty = None
                if s.accept(':'):
                    ty = s.type_text(('|', ','))
                params.append((name, ty))
                s.accept(',')
            if s.accept('->'):
                s.type_()
            body = s.expr()
            return ('lambda', params, body)
        if k == 'id':
            if v in ('for', 'while', 'loop'):
                raise Untranslatable(f"loop `{v}`")
            path = [v]
            while s.accept('::'):
                if s.peek()[1] == '<':
                    s.next()
                    d = 1
                    while d:
                        t = s.next()[1]
                        d += (t == '<') - (t == '>')
                    continue
                path.append(s.next()[1])
            if s.peek()[1] == '{' and path[-1][0].isupper() and not s.nostruct:
                s.next()
                fs = []
                base = None
                while not s.accept('}'):
                    if s.accept('..'):
                        base = s.expr()
                        continue
                    f = s.next()[1]
                    if s.accept(':'):
                        fs.append((f, s.expr()))
                    else:
                        fs.append((f, ('path', [f])))
                    s.accept(',')
                return ('struct', path, fs, base)
            return ('path', path)
        raise Untranslatable(f"atom {k} {v}")

    def if_(s):
        if s.peek()[1] == 'let':
            raise Untranslatable("if let")
        c = s.expr_nostruct()
        th = s.block()
        el = None
        if s.accept('else'):
            if s.accept('if'):
                el = ('block', [], s.if_())
            else:
                el = s.block()
        return ('if', c, th, el)

    def expr_nostruct(s):
        old = s.nostruct
        s.nostruct = True
        e = s.expr()
        s.nostruct = old
        return e


def strip_comments(src):
    return re.sub(r'//[^\n]*', '', src)


def find_fn(src, impl_header, fn_name, nth=0):
    """locate `fn fn_name` inside the impl block that starts with impl_header; returns (params, body)"""
    if impl_header == '':
        # free function: the first `fn name` at column 0 (`pub fn` / `fn`)
        m0 = re.compile(r'^(?:pub(?:\([a-z]+\))?\s+)?fn\s+' + re.escape(fn_name) + r'\b', re.M).search(src)
        if not m0:
            raise Untranslatable(f"free fn {fn_name} not found")
        blk = src[m0.start():]
    else:
        hi = -1
        for _ in range(nth + 1):
            hi = src.find(impl_header, hi + 1)
            if hi < 0:
                raise Untranslatable(f"impl header not found: {impl_header!r}")
        # extent of the impl block
        b = src.index('{', hi)
        d = 0
        e = b
        while True:
            if src[e] == '{':
                d += 1
            if src[e] == '}':
                d -= 1
                if d == 0:
                    break
            e += 1
        blk = src[b:e + 1]
    m = re.compile(r'\bfn\s+' + re.escape(fn_name) + r'\s*(<(?:[^<>]|<[^<>]*>)*>)?\s*\(').search(blk)
    if not m:
        raise Untranslatable(f"fn {fn_name} not found in {impl_header!r}")
    j = m.end() - 1
    d = 0
    k = j
    while True:
        if blk[k] == '(':
            d += 1
        if blk[k] == ')':
            d -= 1
            if d == 0:
                break
        k += 1
    params = blk[j + 1:k]
    bb = blk.index('{', k)
    d = 0
    ee = bb
    while True:
        if blk[ee] == '{':
            d += 1
        if blk[ee] == '}':
            d -= 1
            if d == 0:
                break
        ee += 1
    return params, blk[bb:ee + 1]


def find_const(src, name):
    m = re.search(r'\bconst\s+' + re.escape(name) + r'\s*:\s*[^=]+=\s*(.*?);', src, re.S)
    if not m:
        raise Untranslatable(f"const {name} not found")
    return m.group(1)


def lit_to_fraction(v):
    v = v.replace('_f64', '').replace('f64', '').replace('_', '')
    m = re.fullmatch(r'(\d*)\.?(\d*)(?:[eE]([+-]?\d+))?', v)
    ip, fp, ex = m.group(1) or '0', m.group(2) or '', int(m.group(3) or 0)
    return Fraction(int(ip + fp), 10 ** len(fp)) * (Fraction(10) ** ex)


AMBIG = {'abs': 'MAbs.abs', 'floor': 'MFloor.floor', 'ceil': 'MCeil.ceil', 'round': 'MRound.round',
         'trunc': 'MTrunc.trunc', 'expand': 'MExpand.expand', 'is_finite': 'MIsFinite.is_finite',
         'is_nan': 'MIsNan.is_nan'}
# scalar-only methods: name -> (lean function, number of extra args)
SCALAR = {'min': ('smin', 1), 'max': ('smax', 1), 'recip': ('srecip', 0), 'sqrt': ('Scalar.sqrt', 0),
          'cbrt': ('Scalar.cbrt', 0), 'signum': ('Scalar.signum', 0), 'copysign': ('Scalar.copysign', 1),
          'mul_add': ('smulAdd', 2), 'sin': ('Scalar.sin', 0), 'cos': ('Scalar.cos', 0),
          'tan': ('Scalar.tan', 0), 'acos': ('Scalar.acos', 0), 'powf': ('Scalar.powf', 1),
          'ln': ('Scalar.ln', 0)}
IDENT_METHODS = ('into', 'clone', 'to_owned', 'as_coeffs')
# core::f64::consts (the names on the right are defined in lean/Kurbo/Shapes.lean)
FLOAT_CONSTS = {'PI': '(Scalar.pi : K)', 'FRAC_PI_2': '(fracPi2 : K)', 'FRAC_PI_4': '(fracPi4 : K)', 'TAU': '(twoPi : K)'}
LEAN_TYPES = {'f64': 'K', 'Point': 'Point K', 'Vec2': 'Vec2 K', 'Size': 'Size K', 'Rect': 'Rect K', 'Line': 'Line K', 'QuadBez': 'QuadBez K', 'CubicBez': 'CubicBez K',
              'Affine': 'Affine K', 'bool': 'Bool', 'usize': 'Nat'}
LEAN_KEYWORDS = {'end', 'at', 'from', 'to', 'fun', 'then', 'do', 'in', 'open', 'by', 'have', 'show', 'with', 'local'}


def lid(name):
    return f"«{name}»" if name in LEAN_KEYWORDS else name


class Emit:
    def __init__(s, ctx, self_type):
        s.ctx = ctx           # Translator
        s.self_type = self_type

    def num(s, v):
        if re.fullmatch(r'\d[\d_]*(_?(usize|i32|u32|u64|i64))?', v):
            return re.sub(r'_?(usize|i32|u32|u64|i64)$', '', v).replace('_', '')   # integer literal: typed by Lean
        q = lit_to_fraction(v)
        if q.denominator == 1:
            return f"({q.numerator} : K)"
        if getattr(s.ctx, 'raw_decimals', False):
            # second tier: digits over a power of ten, as written in the source (the hand-written models spell decimals this way)
            vv = v.replace('_f64', '').replace('f64', '').replace('_', '')
            m = re.fullmatch(r'(\d*)\.?(\d*)(?:[eE]([+-]?\d+))?', vv)
            ip, fp, ex = m.group(1) or '0', m.group(2) or '', int(m.group(3) or 0)
            num, den = int(ip + fp), 10 ** len(fp)
            if ex >= 0:
                num *= 10 ** ex
            else:
                den *= 10 ** (-ex)
            return f"(Scalar.ofRat ({num}/{den} : Rat) : K)"
        return f"(Scalar.ofRat ({q.numerator}/{q.denominator} : Rat) : K)"

    def mname(s, m):
        """method name of a translated item (mangled) or of a hand-written helper (as is)"""
        return lid(m + s.ctx.suffix) if m in s.ctx.method_names else lid(m)

    def e(s, x):
        k = x[0]
        if k == 'num':
            return s.num(x[1])
        if k == 'paren':
            return s.e(x[1])
        if k == 'path':
            p = list(x[1])
            if p == ['self']:
                return 'self'
            if p[0] == 'Self':
                p[0] = s.self_type
            if len(p) == 1:
                if p[0] in s.ctx.const_names:
                    return p[0] + s.ctx.suffix
                if p[0] in FLOAT_CONSTS:
                    return FLOAT_CONSTS[p[0]]
                if p[0] == 'None':
                    return 'none'
                return lid(p[0])
            if p[0] == 'f64':
                raise Untranslatable("f64:: constant")
            full = '.'.join(p)
            if full in s.ctx.item_names:
                return full + s.ctx.suffix
            return full
        if k == 'neg':
            return f"(-{s.e(x[1])})"
        if k == 'not':
            return f"(!{s.e(x[1])})"
        if k == 'as':
            raise Untranslatable(f"cast `as {x[2]}`")
        if k == 'bin':
            op = x[1]
            a = s.e(x[2])
            b = s.e(x[3])
            if op == '<':
                return f"({a} <. {b})"
            if op == '<=':
                return f"({a} <=. {b})"
            if op == '==':
                return f"({a} ==. {b})"
            if op == '>':
                return f"({b} <. {a})"
            if op == '>=':
                return f"({b} <=. {a})"
            if op == '!=':
                return f"(!({a} ==. {b}))"
            if op == '^':
                return f"({a} ^^ {b})"
            if op == '%':
                return f"(Scalar.fmod {a} {b})"
            if op == '..':
                return f"(Range.mk {a} {b})"
            return f"({a} {op} {b})"
        if k == 'field':
            return f"{s.e(x[1])}.{lid(x[2])}"
        if k == 'tidx':
            base = x[1]
            if base[0] == 'path' and base[1] == ['self'] and s.self_type in ('Affine',):
                return 'self'           # Affine is a newtype around [f64; 6]: `self.0` is self
            return f"{s.e(base)}.{x[2] + 1}"
        if k == 'index':
            base = x[1]
            if base[0] == 'tidx' and base[2] == 0:
                base = base[1]          # `x.0[i]` on the newtype `Affine([f64; 6])`
            if x[2][0] == 'num' and re.fullmatch(r'\d+', x[2][1]):
                return f"{s.e(base)}.c{x[2][1]}"
            raise Untranslatable('index with non-literal')
        if k == 'mcall':
            r = s.e(x[1])
            m = x[2]
            a = [s.e(y) for y in x[3]]
            if m in IDENT_METHODS:
                return r
            if m in AMBIG and len(a) == 0:
                return f"({AMBIG[m]} {r})"
            if m in SCALAR and len(a) == SCALAR[m][1]:
                return f"({SCALAR[m][0]} {r} {' '.join(a)})".replace(' )', ')')
            if m == 'hypot' and len(a) == 1:
                return f"(Scalar.hypot {r} {a[0]})"
            if m == 'atan2' and len(a) == 1:
                return f"(Scalar.atan2 {r} {a[0]})"
            if m == 'powi':
                if x[3][0][0] != 'num':
                    raise Untranslatable('powi with non-literal exponent')
                return f"(spowi {r} {x[3][0][1]})"
            if m == 'sin_cos':
                return f"((Scalar.sin {r}, Scalar.cos {r}))"
            if a:
                return f"({r}.{s.mname(m)} {' '.join(a)})"
            return f"{r}.{s.mname(m)}"
        if k == 'call':
            p = list(x[1][1])
            if p[0] == 'Self':
                p[0] = s.self_type
            f = '.'.join(p)
            args = x[2]
            if len(args) == 1 and args[0][0] == 'array' and p[-1] in ('Affine', 'new') and p[0] == 'Affine':
                a = [s.e(y) for y in args[0][1]]
                return f"(Affine.mk {' '.join(a)})"
            a = [s.e(y) for y in args]
            if len(p) == 1 and p[0] == 'Some' and len(a) == 1:
                return f"(some {a[0]})"
            if len(p) == 1 and p[0] in s.ctx.free_fn_rust:
                f = s.ctx.free_fn_rust[p[0]] + s.ctx.suffix
            elif len(p) == 1 and p[0] in s.ctx.free_fn_names:
                f = p[0] + s.ctx.suffix
            elif f in s.ctx.item_names:
                f = f + s.ctx.suffix
            if not a:
                return f
            return f"({f} {' '.join(a)})"
        if k == 'struct':
            p = list(x[1])
            if p[0] == 'Self':
                p[0] = s.self_type
            if x[3] is not None:
                return "{ " + s.e(x[3]) + " with " + ", ".join(f"{lid(f)} := {s.e(v)}" for f, v in x[2]) + " }"
            return "({ " + ", ".join(f"{lid(f)} := {s.e(v)}" for f, v in x[2]) + " } : " + '.'.join(p) + " K)"
        if k == 'array':
            return "⟨" + ", ".join(s.e(y) for y in x[1]) + "⟩"
        if k == 'tuple':
            return "(" + ", ".join(s.e(y) for y in x[1]) + ")"
        if k == 'if':
            c = s.e(x[1])
            th = s.blk(x[2])
            if x[3] is None:
                raise Untranslatable("if without else in expression position")
            el = s.blk(x[3])
            return f"(if {c} then {th} else {el})"
        if k == 'match':
            sc = s.e(x[1])
            arms = []
            for pats, body in x[2]:
                arms.append("| " + " | ".join(s.mpat(p) for p in pats) + " => " + s.blk(body))
            return f"(match {sc} with {' '.join(arms)})"
        if k == 'block':
            return s.blk(x)
        if k == 'lambda':
            ps = ' '.join(f"({lid(n)} : {LEAN_TYPES[t]})" if t in LEAN_TYPES else lid(n) for n, t in x[1]) or '(_ : Unit)'
            return f"(fun {ps} => {s.e(x[2])})"
        raise Untranslatable(f"emit {k}")

    def mpat(s, p):
        if p[0] == 'pvar':
            return '_' if p[1] == '_' else lid(p[1])
        if p[0] == 'pctor':
            path = list(p[1])
            if path[0] == 'Self':
                path[0] = s.self_type
            return "(" + '.'.join(path) + ''.join(' ' + s.mpat(q) for q in p[2]) + ")" if p[2] else '.'.join(path)
        if p[0] == 'ptuple':
            return "(" + ", ".join(s.mpat(q) for q in p[1]) + ")"
        if p[0] == 'pstruct':
            return "{ " + ", ".join(f"{lid(f)} := {s.mpat(q)}" for f, q in p[2]) + " }"
        raise Untranslatable(f"match pattern {p[0]}")

    def pat(s, p):
        if p[0] == 'pvar':
            return lid(p[1])
        if p[0] == 'ptuple':
            return "(" + ", ".join(s.pat(q) for q in p[1]) + ")"
        if p[0] == 'parray':
            return "⟨" + ", ".join(s.pat(q) for q in p[1]) + "⟩"
        if p[0] == 'pstruct':
            return "⟨" + ", ".join(s.pat(q) for _, q in p[2]) + "⟩"
        raise Untranslatable(f"let pattern {p[0]}")

    def lhs_name(s, e):
        if e[0] == 'path' and len(e[1]) == 1:
            return lid(e[1][0])
        raise Untranslatable("assignment to a non-local")

    def field_assign(s, st):
        """`x.f op= e` / `x.0[i] op= e` on a local struct  ==>  (x, field, new value)"""
        lhs = st[2]
        if lhs[0] == 'field' and lhs[1][0] == 'path' and len(lhs[1][1]) == 1:
            var, fld = lid(lhs[1][1][0]), lid(lhs[2])
        elif (lhs[0] == 'index' and lhs[1][0] == 'tidx' and lhs[1][2] == 0 and lhs[1][1][0] == 'path'
              and len(lhs[1][1][1]) == 1 and lhs[2][0] == 'num'):
            var, fld = lid(lhs[1][1][1][0]), 'c' + lhs[2][1]
        else:
            return None
        rhs = s.e(st[3]) if st[1] == '=' else f"({var}.{fld} {st[1][0]} {s.e(st[3])})"
        return var, fld, rhs

    def blk(s, b):
        _, stmts, tail = b
        return s.stmts(list(stmts), tail)

    def stmts(s, stmts, tail):
        if not stmts:
            if tail is None:
                raise Untranslatable("block without value")
            return s.e(tail)
        st = stmts[0]
        rest = stmts[1:]
        if st[0] == 'let':
            return f"(let {s.pat(st[1])} := {s.e(st[2])}; {s.stmts(rest, tail)})"
        if st[0] == 'assign':
            fa = s.field_assign(st)
            if fa:
                var, fld, rhs = fa
                return f"(let {var} := {{ {var} with {fld} := {rhs} }}; {s.stmts(rest, tail)})"
            n = s.lhs_name(st[2])
            if st[1] == '=':
                return f"(let {n} := {s.e(st[3])}; {s.stmts(rest, tail)})"
            return f"(let {n} := ({n} {st[1][0]} {s.e(st[3])}); {s.stmts(rest, tail)})"
        if st[0] == 'return':
            return s.e(st[1])
        if st[0] == 'expr' and st[1][0] == 'if':
            i = st[1]
            # `if c { ...; return e; }` followed by the rest  ==>  if c then e else rest
            if i[3] is None and s.ends_in_return(i[2]):
                return f"(if {s.e(i[1])} then {s.blk(i[2])} else {s.stmts(rest, tail)})"
            if not rest and tail is None:
                return s.e(i)
            # `if c { x = e; }` (assignments only) followed by the rest
            if s.only_assigns(i[2]) and (i[3] is None or s.only_assigns(i[3])):
                names = []
                for blk in (i[2], i[3]):
                    if blk:
                        for a in blk[1]:
                            n = s.lhs_name(a[2])
                            if n not in names:
                                names.append(n)
                tup = names[0] if len(names) == 1 else "(" + ", ".join(names) + ")"
                th = s.stmts(list(i[2][1]), ('rawtail', tup))
                el = s.stmts(list(i[3][1]), ('rawtail', tup)) if i[3] else tup
                return f"(let {tup} := (if {s.e(i[1])} then {th} else {el}); {s.stmts(rest, tail)})"
            raise Untranslatable("if statement form")
        if st[0] == 'expr' and st[1][0] == 'mcall' and st[1][2] in ('debug_assert',):
            return s.stmts(rest, tail)
        if st[0] == 'expr' and st[1][0] == 'path' and st[1][1][0].startswith('debug_assert'):
            return s.stmts(rest, tail)
        raise Untranslatable(f"statement {st[0]} {st[1][0] if isinstance(st[1], tuple) else ''}")

    def ends_in_return(s, b):
        return b[1] and b[1][-1][0] == 'return' and b[2] is None

    def only_assigns(s, b):
        return b[2] is None and b[1] and all(a[0] == 'assign' for a in b[1])


# make ('rawtail', text) emit as raw text
_old_e = Emit.e


def _e(s, x):
    if x[0] == 'rawtail':
        return x[1]
    return _old_e(s, x)


Emit.e = _e


class Translator:
    def __init__(self, srcdir, items, suffix):
        self.srcdir = srcdir
        self.items = items
        self.suffix = suffix
        self.item_names = {it['lean'] for it in items if it['kind'] in ('fn', 'const')}
        self.method_names = {it['lean'].split('.')[-1] for it in items if it['kind'] == 'fn' and '.' in it['lean']}
        self.free_fn_names = {it['lean'] for it in items if it['kind'] == 'fn' and '.' not in it['lean']}
        self.const_names = {it['lean'] for it in items if it['kind'] == 'const' and '.' not in it['lean']}
        # free functions whose Lean name differs from the Rust name (rotate_pt -> rotatePt)
        self.free_fn_rust = {it['fn']: it['lean'] for it in items if it['kind'] == 'fn' and not it['impl'] and it['fn'] != it['lean']}
        self.cache = {}

    def src(self, f):
        if f not in self.cache:
            self.cache[f] = strip_comments(open(os.path.join(self.srcdir, f)).read())
        return self.cache[f]

    def translate_item(self, it):
        self_type = it['lean'].split('.')[0] if '.' in it['lean'] else ''
        if it['kind'] == 'fn':
            _, body = find_fn(self.src(it['file']), it['impl'], it['fn'], it.get('nth', 0))
            body = re.sub(r'debug_assert!\s*\((?:[^()]|\([^()]*\))*\)\s*;', '', body)
            ast = P(tokenize(body)).block()
            txt = Emit(self, self_type).blk(ast)
            return f"def {it['lean']}{self.suffix} {it['sig']} :=\n  {txt}\n"
        if it['kind'] == 'const':
            rhs = find_const(self.src(it['file']), it['fn'])
            ast = P(tokenize(rhs + ' ;')).expr()
            txt = Emit(self, self_type).e(ast)
            return f"def {it['lean']}{self.suffix} {it['sig']} :=\n  {txt}\n"
        raise ValueError(it['kind'])

    def run(self):
        out = []
        status = {}
        for it in self.items:
            if it['kind'] == 'raw':
                txt = it['text']
                if self.suffix:
                    # operator instances: the regenerated bodies use the PINNED instances (Kernel.lean is imported), so that an operator applied in
                    # one function is the pinned callee - whose own equation `f_g = f` is a separate obligation - and a change of the callee
                    # does not break the equations of all its callers.  Tier 2 declares instances the hand-written files lack: bound to the pinned names.
                    txt = ('-- (instance of the pinned kernel used) ' + txt.replace('\n', ' ')) if getattr(self, 'raw_mode', 'skip') == 'skip' else txt
                out.append(txt + "\n")
                continue
            try:
                out.append(self.translate_item(it))
                status[it['lean']] = 'ok'
            except (Untranslatable, ValueError, IndexError) as ex:
                status[it['lean']] = f'untranslatable: {ex}'
                if self.suffix:
                    # degraded tie for this item: fall back to the pinned definition so that dependants still build
                    out.append(f"-- TIE-DEGRADED {it['lean']}: {ex}\nabbrev {it['lean']}{self.suffix} {{K : Type}} [Scalar K] := @{it['lean']} K _\n")
                else:
                    out.append(f"-- UNTRANSLATABLE {it['lean']}: {ex}\n")
        return self.toposort(out), status

    def toposort(self, out):
        """order the emitted definitions so that every `f_g` is defined before it is used, whatever the order of the item list: a refactoring
        may make one translated function call another that comes later in kernel_items.py.  Each definition keeps the raw items (instances)
        that follow it.  Stable: without such a forward reference the order is unchanged; members of a cycle keep their original order."""
        if not self.suffix:
            return out
        groups = []          # [name or None, text]
        k = 0
        for it in self.items:
            txt = out[k]
            k += 1
            if it['kind'] == 'raw' and groups:
                groups[-1][1] += "\n" + txt
            else:
                groups.append([it.get('lean') if it['kind'] != 'raw' else None, txt])
        names = [g[0] for g in groups if g[0]]
        by_method = {}
        for n in names:
            by_method.setdefault(n.split('.')[-1], []).append(n)
        deps = {}
        for name, txt in groups:
            if not name:
                continue
            body = txt.split(':=', 1)[1] if ':=' in txt else txt
            d = set()
            for n in names:
                if n != name and re.search(r'(?<![\w.])' + re.escape(n + self.suffix) + r'(?![\w])', body):
                    d.add(n)
            for m in re.findall(r'\.([A-Za-z_][A-Za-z0-9_]*?)' + re.escape(self.suffix) + r'(?![\w])', body):
                for n in by_method.get(m, []):
                    if n != name:
                        d.add(n)
            deps[name] = d
        order, placed, pending = [], set(), list(groups)
        while pending:
            progressed = False
            rest = []
            for g in pending:
                if g[0] is None or deps[g[0]] <= placed | {x[0] for x in rest if False}:
                    if g[0] is None or all(dn in placed for dn in deps[g[0]]):
                        order.append(g[1])
                        if g[0]:
                            placed.add(g[0])
                        progressed = True
                        continue
                rest.append(g)
            if not progressed:
                # a cycle (or an over-approximated method dependency): emit the first pending definition as it is
                g = rest.pop(0)
                order.append(g[1])
                if g[0]:
                    placed.add(g[0])
            pending = rest
        return order


def main():
    import argparse
    ap = argparse.ArgumentParser()
    ap.add_argument('srcdir')
    ap.add_argument('out')
    ap.add_argument('--suffix', default='')
    ap.add_argument('--status', default=None)
    ap.add_argument('--tier', default='1')
    a = ap.parse_args()
    sys.path.insert(0, os.path.dirname(os.path.abspath(__file__)))
    if a.tier == '2':
        from kernel_items2 import ITEMS
    else:
        from kernel_items import ITEMS
    tr = Translator(a.srcdir, ITEMS, a.suffix)
    tr.raw_decimals = (a.tier == '2')
    tr.raw_mode = 'pinned' if a.tier == '2' else 'skip'
    out, status = tr.run()
    if a.tier == '2':
        hdr = ("import Kurbo.Shapes\nimport Kurbo.Flatten\nimport Kurbo.Arclen\nimport Kurbo.Quads\n"
               "/-! GENERATED by tools/rs2lean.py --tier 2 from the current working tree of /repo on every run. DO NOT EDIT.\n"
               "    Re-translation of the straight-line functions whose pinned model is HAND-WRITTEN (Shapes/Flatten/Arclen/Quads.lean). -/\n"
               "set_option linter.unusedVariables false\nnamespace Kurbo\nopen Ops\nvariable {K : Type} [Scalar K]\n\n")
    elif a.suffix:
        hdr = ("import Kurbo.Kernel\n/-! GENERATED by tools/rs2lean.py from the current working tree of /repo on every run. DO NOT EDIT. -/\n"
               "set_option linter.unusedVariables false\nnamespace Kurbo\nopen Ops\nvariable {K : Type} [Scalar K]\n\n")
    else:
        hdr = ("import Kurbo.Types\n/-! The kernel model: output of tools/rs2lean.py on the pinned tree (committed; reviewed).\n"
               "    `Kurbo/Gen/Kernel.lean` is the same translation of the *current* tree; `Proofs/GenEquiv.lean` proves them equal. -/\n"
               "set_option linter.unusedVariables false\nnamespace Kurbo\nopen Ops\nvariable {K : Type} [Scalar K]\n\n")
    txt = hdr + "\n".join(out) + "\nend Kurbo\n"
    old = open(a.out).read() if os.path.exists(a.out) else None
    if old != txt:
        os.makedirs(os.path.dirname(a.out), exist_ok=True)
        open(a.out, 'w').write(txt)
    if a.status:
        json.dump(status, open(a.status, 'w'), indent=1)
    bad = {k: v for k, v in status.items() if v != 'ok'}
    for k, v in bad.items():
        print(f"TIE-DEGRADED item={k} {v}")
    print(f"rs2lean: {len(status) - len(bad)}/{len(status)} items translated -> {a.out}")


if __name__ == '__main__':
    main()
