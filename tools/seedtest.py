#!/usr/bin/env python3
"""seedtest.py <ID> <k> [tier] [--props C01,C02]: copy /tmp/seed_out/<ID>/<k> (or use /verif/seeded/<ID>-<k>) , apply its patch to /repo, run ./check, undo.
Writes /verif/seeded/<ID>-<k>/result.json"""
import sys, os, json, subprocess, shutil, time, fcntl
_lock = open('/tmp/repo.lock', 'w')
fcntl.flock(_lock, fcntl.LOCK_EX)      # /repo is shared with other runs of ./check: one user at a time
V = '/verif'
pid, k = sys.argv[1], sys.argv[2]
tier = sys.argv[3] if len(sys.argv) > 3 and not sys.argv[3].startswith('--') else 'quick'
props = [pid]
for a in sys.argv:
    if a.startswith('--props'):
        props = a.split('=')[1].split(',')
rnd = os.environ.get('SEED_ROUND', '')        # '' = first round (/tmp/seed_out), '2' = second round (/tmp/seed2_out) …
dst = f'{V}/seeded/{pid}-{k}' if not rnd else f'{V}/seeded/{pid}-r{rnd}-{k}'
src = f'/tmp/seed{rnd}_out/{pid}/{k}'
if os.path.isdir(src):
    os.makedirs(dst, exist_ok=True)
    for f in ('patch.diff', 'demo.rs', 'meta.json', 'verify.json'):
        if os.path.exists(f'{src}/{f}'):
            shutil.copy(f'{src}/{f}', f'{dst}/{f}')
assert subprocess.run(['git', '-C', '/repo', 'status', '--porcelain'], capture_output=True, text=True).stdout.strip() == '', 'repo dirty'
r = subprocess.run(['git', '-C', '/repo', 'apply', f'{dst}/patch.diff'], capture_output=True, text=True)
if r.returncode != 0:
    print('APPLY FAILED', r.stderr)
    sys.exit(2)
res = {}
try:
    for p in props:
        t0 = time.time()
        env = dict(os.environ, VERIF_EVIDENCE_DIR=f'/tmp/seed_evidence')
        os.makedirs('/tmp/seed_evidence', exist_ok=True)
        c = subprocess.run(['./check', p, tier], cwd=V, capture_output=True, text=True, env=env)
        out = c.stdout + c.stderr
        viol = [l for l in out.splitlines() if l.startswith('VIOLATION')]
        fails = [l.strip()[:300] for l in out.splitlines() if 'failing input' in l or 'broken' in l.lower()][:6]
        res[p] = dict(exit=c.returncode, violations=viol[:6], detail=fails, wall=round(time.time() - t0, 1), tier=tier)
        print(p, tier, 'exit', c.returncode, len(viol), 'VIOLATION lines;', (fails[:2]))
finally:
    subprocess.run(['git', '-C', '/repo', 'checkout', '--', '.'])
    # the regenerated model files now describe the PATCHED tree: regenerate them from the restored one
    for a in (['tools/rs2lean.py', '/repo/kurbo/src', 'lean/Kurbo/Gen/Kernel.lean', '--suffix', '_g'],
              ['tools/rs2lean.py', '/repo/kurbo/src', 'lean/Kurbo/Gen/Kernel2.lean', '--suffix', '_g', '--tier', '2'],
              ['tools/gen_equiv.py', 'lean/Proofs/GenEquiv.lean'], ['tools/gen_equiv2.py', 'lean/Proofs/GenEquiv2.lean'],
              ['tools/gltables.py', '/repo/kurbo/src/common.rs', 'lean/Kurbo/Gen/GLTables.lean', '--suffix', '_g'],
              ['tools/floatfuncs.py', '/repo/kurbo/src/common.rs', 'lean/Kurbo/Gen/FloatFuncs.lean', '--suffix', '_g']):
        subprocess.run([sys.executable] + a, cwd=V, capture_output=True)
old = {}
if os.path.exists(f'{dst}/result.json'):
    old = json.load(open(f'{dst}/result.json'))
_sd = os.environ.get('VERIF_SEED')
old.update({f'{p}:{tier}' + (f':seed{_sd}' if _sd else ''): v for p, v in res.items()})
json.dump(old, open(f'{dst}/result.json', 'w'), indent=1)
