"""The list of kurbo items translated by rs2lean (the regenerated part of the model).

kind 'fn'   : file, impl header (text that starts the impl block; '' = free function), fn name, Lean name, Lean signature
kind 'const': file, const name, Lean name, Lean signature
kind 'raw'  : Lean text emitted verbatim between items (instances that bind operators to translated functions)
"""

ITEMS = []


def fn(file, impl, name, lean, sig, nth=0):
    ITEMS.append(dict(kind='fn', file=file, impl=impl, fn=name, lean=lean, sig=sig, nth=nth))


def const(file, name, lean, sig):
    ITEMS.append(dict(kind='const', file=file, impl='', fn=name, lean=lean, sig=sig))


def raw(text):
    ITEMS.append(dict(kind='raw', text=text))


V, P, S, R, I = 'Vec2 K', 'Point K', 'Size K', 'Rect K', 'Insets K'

# ---------------------------------------------------------------- vec2.rs
for n in ('dot', 'cross'):
    fn('vec2.rs', 'impl Vec2 {', n, f'Vec2.{n}', f'(self other : {V}) : K')
fn('vec2.rs', 'impl Vec2 {', 'hypot2', 'Vec2.hypot2', f'(self : {V}) : K')
fn('vec2.rs', 'impl Vec2 {', 'hypot', 'Vec2.hypot', f'(self : {V}) : K')
fn('vec2.rs', 'impl Vec2 {', 'atan2', 'Vec2.atan2', f'(self : {V}) : K')
fn('vec2.rs', 'impl Vec2 {', 'lerp', 'Vec2.lerp', f'(self other : {V}) (t : K) : {V}')
fn('vec2.rs', 'impl Vec2 {', 'normalize', 'Vec2.normalize', f'(self : {V}) : {V}')
fn('vec2.rs', 'impl Vec2 {', 'turn_90', 'Vec2.turn_90', f'(self : {V}) : {V}')
fn('vec2.rs', 'impl Vec2 {', 'rotate_scale', 'Vec2.rotate_scale', f'(self rhs : {V}) : {V}')
for n in ('round', 'ceil', 'floor', 'expand', 'trunc'):
    fn('vec2.rs', 'impl Vec2 {', n, f'Vec2.{n}', f'(self : {V}) : {V}')
    raw(f'instance : M{n.capitalize()} ({V}) := ⟨Vec2.{n}⟩')
fn('vec2.rs', 'impl Vec2 {', 'is_finite', 'Vec2.is_finite', f'(self : {V}) : Bool')
raw(f'instance : MIsFinite ({V}) := ⟨Vec2.is_finite⟩')
fn('vec2.rs', 'impl Vec2 {', 'is_nan', 'Vec2.is_nan', f'(self : {V}) : Bool')
raw(f'instance : MIsNan ({V}) := ⟨Vec2.is_nan⟩')

# ---------------------------------------------------------------- point.rs
fn('point.rs', 'impl Point {', 'lerp', 'Point.lerp', f'(self other : {P}) (t : K) : {P}')
fn('point.rs', 'impl Point {', 'midpoint', 'Point.midpoint', f'(self other : {P}) : {P}')
fn('point.rs', 'impl Point {', 'distance', 'Point.distance', f'(self other : {P}) : K')
fn('point.rs', 'impl Point {', 'distance_squared', 'Point.distance_squared', f'(self other : {P}) : K')
for n in ('round', 'ceil', 'floor', 'expand', 'trunc'):
    fn('point.rs', 'impl Point {', n, f'Point.{n}', f'(self : {P}) : {P}')
    raw(f'instance : M{n.capitalize()} ({P}) := ⟨Point.{n}⟩')
fn('point.rs', 'impl Point {', 'is_finite', 'Point.is_finite', f'(self : {P}) : Bool')
raw(f'instance : MIsFinite ({P}) := ⟨Point.is_finite⟩')
fn('point.rs', 'impl Point {', 'is_nan', 'Point.is_nan', f'(self : {P}) : Bool')
raw(f'instance : MIsNan ({P}) := ⟨Point.is_nan⟩')

# ---------------------------------------------------------------- size.rs
for n in ('round', 'ceil', 'floor', 'expand', 'trunc'):
    fn('size.rs', 'impl Size {', n, f'Size.{n}', f'(self : {S}) : {S}')
    raw(f'instance : M{n.capitalize()} ({S}) := ⟨Size.{n}⟩')
fn('size.rs', 'impl Size {', 'area', 'Size.area', f'(self : {S}) : K')
fn('size.rs', 'impl Size {', 'max_side', 'Size.max_side', f'(self : {S}) : K')
fn('size.rs', 'impl Size {', 'min_side', 'Size.min_side', f'(self : {S}) : K')

# ---------------------------------------------------------------- line.rs
L, Q, C = 'Line K', 'QuadBez K', 'CubicBez K'
fn('line.rs', 'impl ParamCurve for Line', 'eval', 'Line.eval', f'(self : {L}) (t : K) : {P}')
fn('line.rs', 'impl ParamCurve for Line', 'subsegment', 'Line.subsegment', f'(self : {L}) (range : Range K) : {L}')
fn('line.rs', 'impl ParamCurve for Line', 'start', 'Line.start', f'(self : {L}) : {P}')
fn('line.rs', 'impl ParamCurve for Line', 'end', 'Line.end', f'(self : {L}) : {P}')
fn('line.rs', 'impl Line {', 'reversed', 'Line.reversed', f'(self : {L}) : {L}')
fn('line.rs', 'impl Line {', 'midpoint', 'Line.midpoint', f'(self : {L}) : {P}')
fn('line.rs', 'impl ParamCurveArclen for Line', 'arclen', 'Line.arclen', f'(self : {L}) (_accuracy : K) : K')
fn('line.rs', 'impl ParamCurveArclen for Line', 'inv_arclen', 'Line.inv_arclen', f'(self : {L}) (arclen _accuracy : K) : K')
fn('line.rs', 'impl ParamCurveArea for Line', 'signed_area', 'Line.signed_area', f'(self : {L}) : K')
fn('line.rs', 'impl ParamCurveNearest for Line', 'nearest', 'Line.nearest', f'(self : {L}) (p : {P}) (_accuracy : K) : Nearest K')

# ---------------------------------------------------------------- quadbez.rs
fn('quadbez.rs', 'impl ParamCurve for QuadBez', 'eval', 'QuadBez.eval', f'(self : {Q}) (t : K) : {P}')
fn('quadbez.rs', 'impl ParamCurve for QuadBez', 'subsegment', 'QuadBez.subsegment', f'(self : {Q}) (range : Range K) : {Q}')
fn('quadbez.rs', 'impl ParamCurve for QuadBez', 'subdivide', 'QuadBez.subdivide', f'(self : {Q}) : {Q} × {Q}')
fn('quadbez.rs', 'impl ParamCurve for QuadBez', 'start', 'QuadBez.start', f'(self : {Q}) : {P}')
fn('quadbez.rs', 'impl ParamCurve for QuadBez', 'end', 'QuadBez.end', f'(self : {Q}) : {P}')
fn('quadbez.rs', 'impl ParamCurveDeriv for QuadBez', 'deriv', 'QuadBez.deriv', f'(self : {Q}) : {L}')
fn('quadbez.rs', 'impl ParamCurveArea for QuadBez', 'signed_area', 'QuadBez.signed_area', f'(self : {Q}) : K')

# ---------------------------------------------------------------- cubicbez.rs
fn('cubicbez.rs', 'impl ParamCurve for CubicBez', 'eval', 'CubicBez.eval', f'(self : {C}) (t : K) : {P}')
fn('cubicbez.rs', 'impl ParamCurveDeriv for CubicBez', 'deriv', 'CubicBez.deriv', f'(self : {C}) : {Q}')
fn('cubicbez.rs', 'impl ParamCurve for CubicBez', 'subsegment', 'CubicBez.subsegment', f'(self : {C}) (range : Range K) : {C}')
fn('cubicbez.rs', 'impl ParamCurve for CubicBez', 'subdivide', 'CubicBez.subdivide', f'(self : {C}) : {C} × {C}')
fn('cubicbez.rs', 'impl ParamCurve for CubicBez', 'start', 'CubicBez.start', f'(self : {C}) : {P}')
fn('cubicbez.rs', 'impl ParamCurve for CubicBez', 'end', 'CubicBez.end', f'(self : {C}) : {P}')
fn('cubicbez.rs', 'impl ParamCurveArea for CubicBez', 'signed_area', 'CubicBez.signed_area', f'(self : {C}) : K')
fn('quadbez.rs', 'impl QuadBez {', 'raise', 'QuadBez.raise', f'(self : {Q}) : {C}')

# ---------------------------------------------------------------- bezpath.rs : PathSeg
PS = 'PathSeg K'
fn('bezpath.rs', 'impl ParamCurve for PathSeg', 'eval', 'PathSeg.eval', f'(self : {PS}) (t : K) : {P}')
fn('bezpath.rs', 'impl ParamCurve for PathSeg', 'subsegment', 'PathSeg.subsegment', f'(self : {PS}) (range : Range K) : {PS}')
fn('bezpath.rs', 'impl ParamCurve for PathSeg', 'start', 'PathSeg.start', f'(self : {PS}) : {P}')
fn('bezpath.rs', 'impl ParamCurve for PathSeg', 'end', 'PathSeg.end', f'(self : {PS}) : {P}')
fn('bezpath.rs', 'impl ParamCurveArea for PathSeg', 'signed_area', 'PathSeg.signed_area', f'(self : {PS}) : K')
fn('bezpath.rs', 'impl PathSeg {', 'as_path_el', 'PathSeg.as_path_el', f'(self : {PS}) : PathEl K')
fn('bezpath.rs', 'impl PathSeg {', 'reverse', 'PathSeg.reverse', f'(self : {PS}) : {PS}')
fn('bezpath.rs', 'impl PathSeg {', 'to_cubic', 'PathSeg.to_cubic', f'(self : {PS}) : {C}')
