"""The list of kurbo items translated by rs2lean (the regenerated part of the model).

kind 'fn'   : file, impl header (text that starts the impl block; '' = free function), fn name, Lean name, Lean signature
kind 'const': file, const name, Lean name, Lean signature
kind 'raw'  : Lean text emitted verbatim between items (instances that bind operators to translated functions)
"""

ITEMS = []


def fn(file, impl, name, lean, sig, nth=0):
    ITEMS.append(dict(kind='fn', file=file, impl=impl, fn=name, lean=lean, sig=sig, nth=nth))


def const(file, name, lean, sig):
    ITEMS.append(dict(kind='const', file=file, impl='', fn=name, lean=lean, sig=sig))


def raw(text):
    ITEMS.append(dict(kind='raw', text=text))


V, P, S, R, I = 'Vec2 K', 'Point K', 'Size K', 'Rect K', 'Insets K'

# ---------------------------------------------------------------- vec2.rs
for n in ('dot', 'cross'):
    fn('vec2.rs', 'impl Vec2 {', n, f'Vec2.{n}', f'(self other : {V}) : K')
fn('vec2.rs', 'impl Vec2 {', 'hypot2', 'Vec2.hypot2', f'(self : {V}) : K')
fn('vec2.rs', 'impl Vec2 {', 'hypot', 'Vec2.hypot', f'(self : {V}) : K')
fn('vec2.rs', 'impl Vec2 {', 'atan2', 'Vec2.atan2', f'(self : {V}) : K')
fn('vec2.rs', 'impl Vec2 {', 'lerp', 'Vec2.lerp', f'(self other : {V}) (t : K) : {V}')
fn('vec2.rs', 'impl Vec2 {', 'normalize', 'Vec2.normalize', f'(self : {V}) : {V}')
fn('vec2.rs', 'impl Vec2 {', 'turn_90', 'Vec2.turn_90', f'(self : {V}) : {V}')
fn('vec2.rs', 'impl Vec2 {', 'rotate_scale', 'Vec2.rotate_scale', f'(self rhs : {V}) : {V}')
for n in ('round', 'ceil', 'floor', 'expand', 'trunc'):
    fn('vec2.rs', 'impl Vec2 {', n, f'Vec2.{n}', f'(self : {V}) : {V}')
    raw(f'instance : M{n.capitalize()} ({V}) := ⟨Vec2.{n}⟩')
fn('vec2.rs', 'impl Vec2 {', 'is_finite', 'Vec2.is_finite', f'(self : {V}) : Bool')
raw(f'instance : MIsFinite ({V}) := ⟨Vec2.is_finite⟩')
fn('vec2.rs', 'impl Vec2 {', 'is_nan', 'Vec2.is_nan', f'(self : {V}) : Bool')
raw(f'instance : MIsNan ({V}) := ⟨Vec2.is_nan⟩')

# ---------------------------------------------------------------- point.rs
fn('point.rs', 'impl Point {', 'lerp', 'Point.lerp', f'(self other : {P}) (t : K) : {P}')
fn('point.rs', 'impl Point {', 'midpoint', 'Point.midpoint', f'(self other : {P}) : {P}')
fn('point.rs', 'impl Point {', 'distance', 'Point.distance', f'(self other : {P}) : K')
fn('point.rs', 'impl Point {', 'distance_squared', 'Point.distance_squared', f'(self other : {P}) : K')
for n in ('round', 'ceil', 'floor', 'expand', 'trunc'):
    fn('point.rs', 'impl Point {', n, f'Point.{n}', f'(self : {P}) : {P}')
    raw(f'instance : M{n.capitalize()} ({P}) := ⟨Point.{n}⟩')
fn('point.rs', 'impl Point {', 'is_finite', 'Point.is_finite', f'(self : {P}) : Bool')
raw(f'instance : MIsFinite ({P}) := ⟨Point.is_finite⟩')
fn('point.rs', 'impl Point {', 'is_nan', 'Point.is_nan', f'(self : {P}) : Bool')
raw(f'instance : MIsNan ({P}) := ⟨Point.is_nan⟩')

# ---------------------------------------------------------------- size.rs
for n in ('round', 'ceil', 'floor', 'expand', 'trunc'):
    fn('size.rs', 'impl Size {', n, f'Size.{n}', f'(self : {S}) : {S}')
    raw(f'instance : M{n.capitalize()} ({S}) := ⟨Size.{n}⟩')
fn('size.rs', 'impl Size {', 'area', 'Size.area', f'(self : {S}) : K')
fn('size.rs', 'impl Size {', 'max_side', 'Size.max_side', f'(self : {S}) : K')
fn('size.rs', 'impl Size {', 'min_side', 'Size.min_side', f'(self : {S}) : K')

# ---------------------------------------------------------------- line.rs
L, Q, C = 'Line K', 'QuadBez K', 'CubicBez K'
fn('line.rs', 'impl ParamCurve for Line', 'eval', 'Line.eval', f'(self : {L}) (t : K) : {P}')
fn('line.rs', 'impl ParamCurve for Line', 'subsegment', 'Line.subsegment', f'(self : {L}) (range : Range K) : {L}')
fn('line.rs', 'impl ParamCurve for Line', 'start', 'Line.start', f'(self : {L}) : {P}')
fn('line.rs', 'impl ParamCurve for Line', 'end', 'Line.end', f'(self : {L}) : {P}')
fn('line.rs', 'impl Line {', 'reversed', 'Line.reversed', f'(self : {L}) : {L}')
fn('line.rs', 'impl Line {', 'midpoint', 'Line.midpoint', f'(self : {L}) : {P}')
fn('line.rs', 'impl ParamCurveArclen for Line', 'arclen', 'Line.arclen', f'(self : {L}) (_accuracy : K) : K')
fn('line.rs', 'impl ParamCurveArclen for Line', 'inv_arclen', 'Line.inv_arclen', f'(self : {L}) (arclen _accuracy : K) : K')
fn('line.rs', 'impl ParamCurveArea for Line', 'signed_area', 'Line.signed_area', f'(self : {L}) : K')
fn('line.rs', 'impl ParamCurveNearest for Line', 'nearest', 'Line.nearest', f'(self : {L}) (p : {P}) (_accuracy : K) : Nearest K')

# ---------------------------------------------------------------- quadbez.rs
fn('quadbez.rs', 'impl ParamCurve for QuadBez', 'eval', 'QuadBez.eval', f'(self : {Q}) (t : K) : {P}')
fn('quadbez.rs', 'impl ParamCurve for QuadBez', 'subsegment', 'QuadBez.subsegment', f'(self : {Q}) (range : Range K) : {Q}')
fn('quadbez.rs', 'impl ParamCurve for QuadBez', 'subdivide', 'QuadBez.subdivide', f'(self : {Q}) : {Q} × {Q}')
fn('quadbez.rs', 'impl ParamCurve for QuadBez', 'start', 'QuadBez.start', f'(self : {Q}) : {P}')
fn('quadbez.rs', 'impl ParamCurve for QuadBez', 'end', 'QuadBez.end', f'(self : {Q}) : {P}')
fn('quadbez.rs', 'impl ParamCurveDeriv for QuadBez', 'deriv', 'QuadBez.deriv', f'(self : {Q}) : {L}')
fn('quadbez.rs', 'impl ParamCurveArea for QuadBez', 'signed_area', 'QuadBez.signed_area', f'(self : {Q}) : K')

# ---------------------------------------------------------------- cubicbez.rs
fn('cubicbez.rs', 'impl ParamCurve for CubicBez', 'eval', 'CubicBez.eval', f'(self : {C}) (t : K) : {P}')
fn('cubicbez.rs', 'impl ParamCurveDeriv for CubicBez', 'deriv', 'CubicBez.deriv', f'(self : {C}) : {Q}')
fn('cubicbez.rs', 'impl ParamCurve for CubicBez', 'subsegment', 'CubicBez.subsegment', f'(self : {C}) (range : Range K) : {C}')
fn('cubicbez.rs', 'impl ParamCurve for CubicBez', 'subdivide', 'CubicBez.subdivide', f'(self : {C}) : {C} × {C}')
fn('cubicbez.rs', 'impl ParamCurve for CubicBez', 'start', 'CubicBez.start', f'(self : {C}) : {P}')
fn('cubicbez.rs', 'impl ParamCurve for CubicBez', 'end', 'CubicBez.end', f'(self : {C}) : {P}')
fn('cubicbez.rs', 'impl ParamCurveArea for CubicBez', 'signed_area', 'CubicBez.signed_area', f'(self : {C}) : K')
fn('quadbez.rs', 'impl QuadBez {', 'raise', 'QuadBez.raise', f'(self : {Q}) : {C}')

# ---------------------------------------------------------------- bezpath.rs : PathSeg
PS = 'PathSeg K'
fn('bezpath.rs', 'impl ParamCurve for PathSeg', 'eval', 'PathSeg.eval', f'(self : {PS}) (t : K) : {P}')
fn('bezpath.rs', 'impl ParamCurve for PathSeg', 'subsegment', 'PathSeg.subsegment', f'(self : {PS}) (range : Range K) : {PS}')
fn('bezpath.rs', 'impl ParamCurve for PathSeg', 'start', 'PathSeg.start', f'(self : {PS}) : {P}')
fn('bezpath.rs', 'impl ParamCurve for PathSeg', 'end', 'PathSeg.end', f'(self : {PS}) : {P}')
fn('bezpath.rs', 'impl ParamCurveArea for PathSeg', 'signed_area', 'PathSeg.signed_area', f'(self : {PS}) : K')
fn('bezpath.rs', 'impl PathSeg {', 'as_path_el', 'PathSeg.as_path_el', f'(self : {PS}) : PathEl K')
fn('bezpath.rs', 'impl PathSeg {', 'reverse', 'PathSeg.reverse', f'(self : {PS}) : {PS}')
fn('bezpath.rs', 'impl PathSeg {', 'to_cubic', 'PathSeg.to_cubic', f'(self : {PS}) : {C}')

# ---------------------------------------------------------------- rect.rs / insets.rs
for n in ('width', 'height', 'min_x', 'max_x', 'min_y', 'max_y', 'area'):
    fn('rect.rs', 'impl Rect {', n, f'Rect.{n}', f'(self : {R}) : K')
fn('rect.rs', 'impl Rect {', 'origin', 'Rect.origin', f'(self : {R}) : {P}')
fn('rect.rs', 'impl Rect {', 'size', 'Rect.size', f'(self : {R}) : {S}')
fn('rect.rs', 'impl Rect {', 'center', 'Rect.center', f'(self : {R}) : {P}')
fn('rect.rs', 'impl Rect {', 'is_zero_area', 'Rect.is_zero_area', f'(self : {R}) : Bool')
fn('rect.rs', 'impl Rect {', 'contains', 'Rect.contains', f'(self : {R}) (point : {P}) : Bool')
fn('rect.rs', 'impl Rect {', 'abs', 'Rect.abs', f'(self : {R}) : {R}')
raw(f'instance : MAbs ({R}) := ⟨Rect.abs⟩')
fn('rect.rs', 'impl Rect {', 'from_points', 'Rect.from_points', f'(p0 p1 : {P}) : {R}')
raw(f'/-- `impl From<(Point, Point)> for Rect` -/\ninstance : Coe ({P} × {P}) ({R}) := ⟨fun p => Rect.from_points p.1 p.2⟩')
fn('rect.rs', 'impl Rect {', 'union', 'Rect.union', f'(self other : {R}) : {R}')
fn('rect.rs', 'impl Rect {', 'union_pt', 'Rect.union_pt', f'(self : {R}) (pt : {P}) : {R}')
fn('rect.rs', 'impl Rect {', 'intersect', 'Rect.intersect', f'(self other : {R}) : {R}')
fn('rect.rs', 'impl Rect {', 'overlaps', 'Rect.overlaps', f'(self other : {R}) : Bool')
fn('rect.rs', 'impl Rect {', 'contains_rect', 'Rect.contains_rect', f'(self other : {R}) : Bool')
fn('rect.rs', 'impl Rect {', 'inflate', 'Rect.inflate', f'(self : {R}) (width height : K) : {R}')
for n in ('round', 'ceil', 'floor', 'expand', 'trunc'):
    fn('rect.rs', 'impl Rect {', n, f'Rect.{n}', f'(self : {R}) : {R}')
    raw(f'instance : M{n.capitalize()} ({R}) := ⟨Rect.{n}⟩')
fn('rect.rs', 'impl Rect {', 'scale_from_origin', 'Rect.scale_from_origin', f'(self : {R}) (factor : K) : {R}')
fn('rect.rs', 'impl Add<Vec2> for Rect', 'add', 'Rect.add_Vec2', f'(self : {R}) (v : {V}) : {R}')
raw(f'instance : HAdd ({R}) ({V}) ({R}) := ⟨Rect.add_Vec2⟩')
fn('rect.rs', 'impl Sub<Vec2> for Rect', 'sub', 'Rect.sub_Vec2', f'(self : {R}) (v : {V}) : {R}')
raw(f'instance : HSub ({R}) ({V}) ({R}) := ⟨Rect.sub_Vec2⟩')
fn('rect.rs', 'impl Sub for Rect', 'sub', 'Rect.sub_Rect', f'(self other : {R}) : {I}')
raw(f'instance : HSub ({R}) ({R}) ({I}) := ⟨Rect.sub_Rect⟩')
fn('rect.rs', 'impl Shape for Rect', 'perimeter', 'Rect.perimeter', f'(self : {R}) (_accuracy : K) : K')
fn('rect.rs', 'impl Shape for Rect', 'winding', 'Rect.winding', f'(self : {R}) (pt : {P}) : Int')
fn('rect.rs', 'impl Shape for Rect', 'bounding_box', 'Rect.bounding_box', f'(self : {R}) : {R}')
fn('insets.rs', 'impl Neg for Insets', 'neg', 'Insets.neg', f'(self : {I}) : {I}')
raw(f'instance : Neg ({I}) := ⟨Insets.neg⟩')
fn('insets.rs', 'impl Add<Rect> for Insets', 'add', 'Insets.add_Rect', f'(self : {I}) (other : {R}) : {R}')
raw(f'instance : HAdd ({I}) ({R}) ({R}) := ⟨Insets.add_Rect⟩')
fn('insets.rs', 'impl Add<Insets> for Rect', 'add', 'Rect.add_Insets', f'(self : {R}) (other : {I}) : {R}')
raw(f'instance : HAdd ({R}) ({I}) ({R}) := ⟨Rect.add_Insets⟩')
fn('insets.rs', 'impl Sub<Rect> for Insets', 'sub', 'Insets.sub_Rect', f'(self : {I}) (other : {R}) : {R}')
raw(f'instance : HSub ({I}) ({R}) ({R}) := ⟨Insets.sub_Rect⟩')
fn('insets.rs', 'impl Sub<Insets> for Rect', 'sub', 'Rect.sub_Insets', f'(self : {R}) (other : {I}) : {R}')
raw(f'instance : HSub ({R}) ({I}) ({R}) := ⟨Rect.sub_Insets⟩')
fn('insets.rs', 'impl Insets {', 'x_value', 'Insets.x_value', f'(self : {I}) : K')
fn('insets.rs', 'impl Insets {', 'y_value', 'Insets.y_value', f'(self : {I}) : K')
fn('insets.rs', 'impl Insets {', 'size', 'Insets.size', f'(self : {I}) : {S}')

# ---------------------------------------------------------------- affine.rs
A, TS = 'Affine K', 'TranslateScale K'
fn('affine.rs', 'impl Mul<Point> for Affine', 'mul', 'Affine.mul_Point', f'(self : {A}) (other : {P}) : {P}')
raw(f'instance : HMul ({A}) ({P}) ({P}) := ⟨Affine.mul_Point⟩')
fn('affine.rs', 'impl Mul for Affine', 'mul', 'Affine.mul_Affine', f'(self other : {A}) : {A}')
raw(f'instance : HMul ({A}) ({A}) ({A}) := ⟨Affine.mul_Affine⟩')
fn('affine.rs', 'impl Affine {', 'scale', 'Affine.scale', f'(s : K) : {A}')
fn('affine.rs', 'impl Affine {', 'scale_non_uniform', 'Affine.scale_non_uniform', f'(s_x s_y : K) : {A}')
fn('affine.rs', 'impl Affine {', 'translate', 'Affine.translate', f'(p : {V}) : {A}')
fn('affine.rs', 'impl Affine {', 'skew', 'Affine.skew', f'(skew_x skew_y : K) : {A}')
fn('affine.rs', 'impl Affine {', 'rotate', 'Affine.rotate', f'(th : K) : {A}')
fn('affine.rs', 'impl Affine {', 'then_translate', 'Affine.then_translate', f'(self : {A}) (trans : {V}) : {A}')
fn('affine.rs', 'impl Affine {', 'then_rotate', 'Affine.then_rotate', f'(self : {A}) (th : K) : {A}')
fn('affine.rs', 'impl Affine {', 'then_scale', 'Affine.then_scale', f'(self : {A}) (scale : K) : {A}')
fn('affine.rs', 'impl Affine {', 'then_scale_non_uniform', 'Affine.then_scale_non_uniform', f'(self : {A}) (scale_x scale_y : K) : {A}')
fn('affine.rs', 'impl Affine {', 'scale_about', 'Affine.scale_about', f'(s : K) (center : {P}) : {A}')
fn('affine.rs', 'impl Affine {', 'rotate_about', 'Affine.rotate_about', f'(th : K) (center : {P}) : {A}')
fn('affine.rs', 'impl Affine {', 'then_rotate_about', 'Affine.then_rotate_about', f'(self : {A}) (th : K) (center : {P}) : {A}')
fn('affine.rs', 'impl Affine {', 'then_scale_about', 'Affine.then_scale_about', f'(self : {A}) (scale : K) (center : {P}) : {A}')
fn('affine.rs', 'impl Affine {', 'pre_rotate', 'Affine.pre_rotate', f'(self : {A}) (th : K) : {A}')
fn('affine.rs', 'impl Affine {', 'pre_rotate_about', 'Affine.pre_rotate_about', f'(self : {A}) (th : K) (center : {P}) : {A}')
fn('affine.rs', 'impl Affine {', 'pre_scale', 'Affine.pre_scale', f'(self : {A}) (scale : K) : {A}')
fn('affine.rs', 'impl Affine {', 'pre_scale_non_uniform', 'Affine.pre_scale_non_uniform', f'(self : {A}) (scale_x scale_y : K) : {A}')
fn('affine.rs', 'impl Affine {', 'pre_translate', 'Affine.pre_translate', f'(self : {A}) (trans : {V}) : {A}')
fn('affine.rs', 'impl Affine {', 'reflect', 'Affine.reflect', f'(point : {P}) (direction : {V}) : {A}')
fn('affine.rs', 'impl Affine {', 'map_unit_square', 'Affine.map_unit_square', f'(rect : {R}) : {A}')
fn('affine.rs', 'impl Affine {', 'determinant', 'Affine.determinant', f'(self : {A}) : K')
fn('affine.rs', 'impl Affine {', 'inverse', 'Affine.inverse', f'(self : {A}) : {A}')
fn('affine.rs', 'impl Affine {', 'transform_rect_bbox', 'Affine.transform_rect_bbox', f'(self : {A}) (rect : {R}) : {R}')
fn('affine.rs', 'impl Affine {', 'translation', 'Affine.translation', f'(self : {A}) : {V}')
fn('affine.rs', 'impl Affine {', 'with_translation', 'Affine.with_translation', f'(self : {A}) (trans : {V}) : {A}')
fn('line.rs', 'impl Mul<Line> for Affine', 'mul', 'Affine.mul_Line', f'(self : {A}) (other : {L}) : {L}')
raw(f'instance : HMul ({A}) ({L}) ({L}) := ⟨Affine.mul_Line⟩')
fn('quadbez.rs', 'impl Mul<QuadBez> for Affine', 'mul', 'Affine.mul_QuadBez', f'(self : {A}) (other : {Q}) : {Q}')
raw(f'instance : HMul ({A}) ({Q}) ({Q}) := ⟨Affine.mul_QuadBez⟩')
fn('cubicbez.rs', 'impl Mul<CubicBez> for Affine', 'mul', 'Affine.mul_CubicBez', f'(self : {A}) (c : {C}) : {C}')
raw(f'instance : HMul ({A}) ({C}) ({C}) := ⟨Affine.mul_CubicBez⟩')
fn('bezpath.rs', 'impl Mul<PathSeg> for Affine', 'mul', 'Affine.mul_PathSeg', f'(self : {A}) (other : {PS}) : {PS}')
raw(f'instance : HMul ({A}) ({PS}) ({PS}) := ⟨Affine.mul_PathSeg⟩')
fn('bezpath.rs', 'impl Mul<PathEl> for Affine', 'mul', 'Affine.mul_PathEl', f'(self : {A}) (other : PathEl K) : PathEl K')
raw(f'instance : HMul ({A}) (PathEl K) (PathEl K) := ⟨Affine.mul_PathEl⟩')

# ---------------------------------------------------------------- translate_scale.rs
fn('translate_scale.rs', 'impl TranslateScale {', 'translate', 'TranslateScale.translate', f'(translation : {V}) : {TS}')
fn('translate_scale.rs', 'impl TranslateScale {', 'from_scale_about', 'TranslateScale.from_scale_about', f'(scale : K) (focus : {P}) : {TS}')
fn('translate_scale.rs', 'impl TranslateScale {', 'inverse', 'TranslateScale.inverse', f'(self : {TS}) : {TS}')
fn('translate_scale.rs', 'impl From<TranslateScale> for Affine', 'from', 'TranslateScale.to_affine', f'(ts : {TS}) : {A}')
fn('translate_scale.rs', 'impl Mul<Point> for TranslateScale', 'mul', 'TranslateScale.mul_Point', f'(self : {TS}) (other : {P}) : {P}')
raw(f'instance : HMul ({TS}) ({P}) ({P}) := ⟨TranslateScale.mul_Point⟩')
fn('translate_scale.rs', 'impl Mul for TranslateScale', 'mul', 'TranslateScale.mul_TranslateScale', f'(self other : {TS}) : {TS}')
raw(f'instance : HMul ({TS}) ({TS}) ({TS}) := ⟨TranslateScale.mul_TranslateScale⟩')
fn('translate_scale.rs', 'impl Add<Vec2> for TranslateScale', 'add', 'TranslateScale.add_Vec2', f'(self : {TS}) (other : {V}) : {TS}')
fn('translate_scale.rs', 'impl Sub<Vec2> for TranslateScale', 'sub', 'TranslateScale.sub_Vec2', f'(self : {TS}) (other : {V}) : {TS}')
fn('translate_scale.rs', 'impl Mul<Line> for TranslateScale', 'mul', 'TranslateScale.mul_Line', f'(self : {TS}) (other : {L}) : {L}')
fn('translate_scale.rs', 'impl Mul<Rect> for TranslateScale', 'mul', 'TranslateScale.mul_Rect', f'(self : {TS}) (other : {R}) : {R}')
fn('translate_scale.rs', 'impl Mul<QuadBez> for TranslateScale', 'mul', 'TranslateScale.mul_QuadBez', f'(self : {TS}) (other : {Q}) : {Q}')
fn('translate_scale.rs', 'impl Mul<CubicBez> for TranslateScale', 'mul', 'TranslateScale.mul_CubicBez', f'(self : {TS}) (other : {C}) : {C}')

# ---------------------------------------------------------------- cubic -> quadratic conversion kernel (C17)
fn('vec2.rs', 'impl Vec2 {', 'div_exact', 'Vec2.div_exact', f'(self : {V}) (divisor : K) : {V}')
fn('cubicbez.rs', 'impl CubicBez {', 'approx_quad_control', 'CubicBez.approx_quad_control', f'(self : {C}) (t : K) : {P}')
fn('cubicbez.rs', 'impl CubicBez {', 'parameters', 'CubicBez.parameters', f'(self : {C}) : {V} × {V} × {V} × {V}')
fn('cubicbez.rs', 'impl CubicBez {', 'from_parameters', 'CubicBez.from_parameters', f'(a b c d : {V}) : {C}')
fn('cubicbez.rs', 'impl CubicBez {', 'subdivide_3', 'CubicBez.subdivide_3', f'(self : {C}) : {C} × {C} × {C}')

# ---------------------------------------------------------------- simplify.rs: the moment integrals of a cubic (C18)
fn('simplify.rs', '', 'moment_integrals', 'momentIntegrals', f'(c : {C}) : K × K × K')

# ---------------------------------------------------------------- offset.rs: the parallel curve of a cubic (C18, C04)
CO = 'CubicOffset K'
fn('offset.rs', 'impl CubicOffset {', 'new', 'CubicOffset.new', f'(c : {C}) (d : K) : {CO}')
fn('offset.rs', 'impl CubicOffset {', 'eval_offset', 'CubicOffset.eval_offset', f'(self : {CO}) (t : K) : {V}')
fn('offset.rs', 'impl CubicOffset {', 'eval', 'CubicOffset.eval', f'(self : {CO}) (t : K) : {P}')
fn('offset.rs', 'impl CubicOffset {', 'cusp_sign', 'CubicOffset.cusp_sign', f'(self : {CO}) (t : K) : K')
fn('offset.rs', 'impl CubicOffset {', 'eval_deriv', 'CubicOffset.eval_deriv', f'(self : {CO}) (t : K) : {V}')

# ---------------------------------------------------------------- scalar multiples of maps (C12)
fn('translate_scale.rs', 'impl Mul<TranslateScale> for f64', 'mul', 'TranslateScale.scalar_mul', f'(self : K) (other : {TS}) : {TS}')
fn('affine.rs', 'impl Mul<Affine> for f64', 'mul', 'Affine.scalar_mul', f'(self : K) (other : {A}) : {A}')
