#!/usr/bin/env python3
"""Write MANIFEST.json from the per-property table below (kept in one place so it stays valid)."""
import json, os
VERIF = os.path.dirname(os.path.dirname(os.path.abspath(__file__)))
TECH = 'Lean 4 theorems on an executable model + kernel regenerated from the Rust source (GenEquiv) + differential correspondence'
CLAIMS = {
 'C06': dict(
   text='Proved for every lawful ordered field (all control points, all t0,t1,u, no ordering assumed): subsegment/subdivide/deriv/reverse/raise '
        'identities, eval(0)/eval(1) = end points, start/end are the stored points (for every scalar type, Float included), HasDerivAt over R, '
        'Line->cubic is the smoothstep reparametrisation (monotone). The definitions the theorems are about are regenerated from kurbo/src on '
        'every run and re-proved equal to the model (GenEquiv); the compiled crate is compared with the exact rational model on dyadic grids '
        '(exactly) and on generic doubles (1e-13 relative), and the float clauses (bit-exact end points) are checked on the implementation.',
   note='Trusted: Lean kernel + Mathlib, translator rs2lean.py, harness/driver/comparators. IEEE rounding is modelled, not verified: '
        'bit-exactness of start/end/eval(0|1) is decided by comparison only.',
   ref='6 / C06'),
}
CLAIMS.update({
 'C02': dict(
   text='Proved (any lawful ordered field; Green over R): each of the three signed_area formulas equals the Green line integral 1/2 INT(x dy - y dx) of '
        'the model\'s own eval/deriv; reversal negates; raise / line-as-quad / line-as-cubic / to_cubic keep the area; splitting the parameter range is '
        'additive for any t0,t1,t2; the affine law with its end-point correction, which telescopes to area(A*P) = det A * area(P) for every list of '
        'closed sub-paths (any mix of segment kinds, singular A included); additivity over sub-paths (area_append) incl. panic propagation of the '
        'segments iterator; element-level reversal of one sub-path negates the area. Regenerated kernel (GenEquiv) + exact-on-grid and metamorphic '
        'correspondence against the compiled crate.',
   note='Not formalised: "= double integral of the winding number" (Green\'s theorem proper, cited). Reversal at element level is proved for a single '
        'sub-path (chain-level for several). IEEE rounding: compared with tolerance only.',
   ref='6 / C02'),
 'C07': dict(
   text='Proved about the hand model of Segments/get_seg/from_path_segments/reverse_subpaths (bit-identical to the crate on every element string of '
        'length <= 5 over a 13-symbol alphabet and random strings to length 40): segments() panics iff the first element is ClosePath; fold law; ClosePath '
        'contributes the closing line iff last != start; get_seg(ix) is exactly what the iterator emits while consuming element ix, for every ix; '
        'segments(from_path_segments(ss)) = ss and #MoveTo = 1 + #discontinuities; reverse_subpaths never panics on a path starting with MoveTo and yields '
        'per sub-path the reversed segments in reverse order (closed: closing line rotated), closedness preserved; reversing twice restores the segment '
        'sequence. All for unbounded lengths and any interleaving.',
   note='Theorems that compare points need lawful point equality (true for any lawful field, e.g. Rat; not for Float: NaN != NaN). Paths not starting with '
        'MoveTo are outside get_seg/reverse theorems (debug_assert in the crate). Model is hand-written: tied by exhaustive differential correspondence.',
   ref='6 / C07'),
 'C12': dict(
   text='Proved for every lawful ordered field: (A*B)*p = A*(B*p), associativity, identity, det multiplicative, A*inverse(A) = inverse(A)*A = id for det != 0, '
        'every pre_*/then_* member equals self*T / T*self (rotate family for arbitrary sin/cos values), scale_about/rotate_about/reflect fix centre/axis, '
        'evaluation and subsegment commute with the map for Line/Quad/Cubic/PathSeg and element lists (segments commute for det != 0), TranslateScale is '
        'identical to its Affine on points, products, inverses, segments and rectangles (any scale sign), transform_rect_bbox contains the image of the whole '
        'rectangle and is tight. Kernel regenerated + GenEquiv; exact-on-grid correspondence; documented products checked on the implementation output.',
   note='sin/cos are uninterpreted (no isometry / angle-addition claim). Affine*Arc/Ellipse/Circle (SVD based) is NOT covered by theorems: see C10/C11 and the '
        'recorded finding on arcs. IEEE rounding compared with tolerance.',
   ref='6 / C12'),
 'C20': dict(
   text='Proved for every lawful ordered field with floor: union = least upper bound, intersect = greatest lower bound (zero area when disjoint, always '
        'non-negative extent), contains half-open, overlaps symmetric and = closed rectangles meet, contains_rect <-> union = container (no hypothesis), '
        'abs/from_points, expand = least integral superset and trunc = greatest integral subset for ALL rectangles of non-negative extent (zero extent '
        'included, after the repair of the zero-extent branch), inset add/sub cancellation, rect - rect, rounding helper inequalities component-wise. '
        'Kernel regenerated + GenEquiv; all 28561 grid rectangles, sampled pairs/points/insets and random doubles compared exactly with the exact model, '
        'and the lattice laws evaluated on the implementation output.',
   note='Nothing about NaN/inf coordinates. Rect::round/floor/ceil only coordinate-wise.',
   ref='6 / C20'),
 'C15': dict(
   text='Exact oracle: on the very double coefficients the real roots are isolated over Q by Sturm sequences; every value returned by solve_quadratic/'
        'solve_cubic/solve_quartic must be backward stable or within 1e-7 of a true root, at most degree values, every separated simple root returned once; '
        'ITP within epsilon of the zero of monotone cubics. The implementation is also compared with the Float instantiation of the hand-written Lean model '
        'of solve_quadratic/solve_cubic/solve_itp. Theorems about the model are being added (quadratic root set, cubic branches).',
   note='Theorems (lawful field / reals with real sqrt, cbrt, atan2, sin, cos laws): solve_quadratic returns exactly the real roots, strictly increasing, '
        'with the linear/constant/all-zero fallbacks; solve_cubic returns exactly the real roots in all three discriminant branches (sound and complete), no '
        'duplicates off the triple root, c3 = 0 delegates to the quadratic; quartic reductions c4 = 0 / c0 = 0; ITP keeps the bracket, uses at most nmax+1 '
        'iterations and returns a point within epsilon of the zero of a monotone (or continuous) function. NOT proved: the general quartic (LDL^T path is not '
        'in the model: oracle only), every float-level claim. Two known findings (negligible leading coefficient).',
   ref='6 / C15'),
})
PENDING = set()   # claimed once the theorems are merged
for _p in PENDING:
    CLAIMS.pop(_p, None)
NA = {}
def main():
    ids = ['C%02d' % i for i in range(1, 21)]
    checks = []
    for pid in ids:
        if pid in CLAIMS:
            c = CLAIMS[pid]
            checks.append(dict(property_id=pid, quick_cmd=f'./check {pid} quick', thorough_cmd=f'./check {pid} thorough',
                               evidence_file=f'evidence/{pid}.json', replay_cmd_template=f'./check {pid} --replay {{path}}',
                               engine='lean-proofs+kmodel+kvh',
                               level_claimed=dict(category='proof', text=c['text'], design_ref=c['ref']),
                               level_note=c['note'], technique=TECH))
    na = [dict(property_id=p, reason=NA.get(p, 'not yet built in this round (work in progress; see DESIGN.md section 10)')) for p in ids if p not in CLAIMS]
    m = dict(version=1, setup_cmd='./setup',
             hooks=dict(guard='kurbo_verif', enable='RUSTFLAGS="--cfg kurbo_verif" (set by ./check when it builds the harness for C14)',
                        baseline_off_cmd='cd /repo && cargo test --workspace --no-fail-fast --offline', source_commits=[], add_only=True),
             engines=[dict(name='lean-proofs', path='lean/Proofs', serves_properties=sorted(CLAIMS), kind_free_text='Lean 4 + Mathlib theorems about the executable model'),
                      dict(name='rs2lean', path='tools/rs2lean.py', serves_properties=sorted(CLAIMS), kind_free_text='Rust-subset -> Lean translator; output re-proved equal to the model on every run'),
                      dict(name='kmodel', path='lean/Main.lean', serves_properties=sorted(CLAIMS), kind_free_text='line-protocol driver of the Lean model (exact Rat / Float)'),
                      dict(name='kvh', path='harness', serves_properties=sorted(CLAIMS), kind_free_text='Rust harness calling the crate in /repo in-process')],
             checks=checks, not_applicable=na,
             notes='One entry point: ./check <ID> quick|thorough [--replay file]. See DESIGN.md.')
    json.dump(m, open(os.path.join(VERIF, 'MANIFEST.json'), 'w'), indent=1)
    print('MANIFEST.json:', len(checks), 'checks,', len(na), 'not_applicable')
if __name__ == '__main__':
    main()
