#!/usr/bin/env python3
"""Write MANIFEST.json from the per-property table below (kept in one place so it stays valid)."""
import json, os
VERIF = os.path.dirname(os.path.dirname(os.path.abspath(__file__)))
TECH = 'Lean 4 theorems on an executable model + kernel regenerated from the Rust source (GenEquiv) + differential correspondence'
CLAIMS = {
 'C06': dict(
   text='Proved for every lawful ordered field (all control points, all t0,t1,u, no ordering assumed): subsegment/subdivide/deriv/reverse/raise '
        'identities, eval(0)/eval(1) = end points, start/end are the stored points (for every scalar type, Float included), HasDerivAt over R, '
        'Line->cubic is the smoothstep reparametrisation (monotone). The definitions the theorems are about are regenerated from kurbo/src on '
        'every run and re-proved equal to the model (GenEquiv); the compiled crate is compared with the exact rational model on dyadic grids '
        '(exactly) and on generic doubles (1e-13 relative), and the float clauses (bit-exact end points) are checked on the implementation.',
   note='Trusted: Lean kernel + Mathlib, translator rs2lean.py, harness/driver/comparators. IEEE rounding is modelled, not verified: '
        'bit-exactness of start/end/eval(0|1) is decided by comparison only.',
   ref='6 / C06'),
}
NA = {}
def main():
    ids = ['C%02d' % i for i in range(1, 21)]
    checks = []
    for pid in ids:
        if pid in CLAIMS:
            c = CLAIMS[pid]
            checks.append(dict(property_id=pid, quick_cmd=f'./check {pid} quick', thorough_cmd=f'./check {pid} thorough',
                               evidence_file=f'evidence/{pid}.json', replay_cmd_template=f'./check {pid} --replay {{path}}',
                               engine='lean-proofs+kmodel+kvh',
                               level_claimed=dict(category='proof', text=c['text'], design_ref=c['ref']),
                               level_note=c['note'], technique=TECH))
    na = [dict(property_id=p, reason=NA.get(p, 'not yet built in this round (work in progress; see DESIGN.md section 10)')) for p in ids if p not in CLAIMS]
    m = dict(version=1, setup_cmd='./setup',
             hooks=dict(guard='kurbo_verif', enable='RUSTFLAGS="--cfg kurbo_verif" (set by ./check when it builds the harness for C14)',
                        baseline_off_cmd='cd /repo && cargo test --workspace --no-fail-fast --offline', source_commits=[], add_only=True),
             engines=[dict(name='lean-proofs', path='lean/Proofs', serves_properties=sorted(CLAIMS), kind_free_text='Lean 4 + Mathlib theorems about the executable model'),
                      dict(name='rs2lean', path='tools/rs2lean.py', serves_properties=sorted(CLAIMS), kind_free_text='Rust-subset -> Lean translator; output re-proved equal to the model on every run'),
                      dict(name='kmodel', path='lean/Main.lean', serves_properties=sorted(CLAIMS), kind_free_text='line-protocol driver of the Lean model (exact Rat / Float)'),
                      dict(name='kvh', path='harness', serves_properties=sorted(CLAIMS), kind_free_text='Rust harness calling the crate in /repo in-process')],
             checks=checks, not_applicable=na,
             notes='One entry point: ./check <ID> quick|thorough [--replay file]. See DESIGN.md.')
    json.dump(m, open(os.path.join(VERIF, 'MANIFEST.json'), 'w'), indent=1)
    print('MANIFEST.json:', len(checks), 'checks,', len(na), 'not_applicable')
if __name__ == '__main__':
    main()
