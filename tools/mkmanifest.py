#!/usr/bin/env python3
"""Write MANIFEST.json from the per-property table below (kept in one place so it stays valid)."""
import json, os
VERIF = os.path.dirname(os.path.dirname(os.path.abspath(__file__)))
TECH = 'Lean 4 theorems on an executable model + kernel regenerated from the Rust source (GenEquiv) + differential correspondence'
CLAIMS = {
 'C06': dict(
   text='Proved for every lawful ordered field (all control points, all t0,t1,u, no ordering assumed): subsegment/subdivide/deriv/reverse/raise '
        'identities, eval(0)/eval(1) = end points, start/end are the stored points (for every scalar type, Float included), HasDerivAt over R, '
        'Line->cubic is the smoothstep reparametrisation (monotone). The definitions the theorems are about are regenerated from kurbo/src on '
        'every run and re-proved equal to the model (GenEquiv); the compiled crate is compared with the exact rational model on dyadic grids '
        '(exactly) and on generic doubles (1e-13 relative), and the float clauses (bit-exact end points) are checked on the implementation.',
   note='Trusted: Lean kernel + Mathlib, translator rs2lean.py, harness/driver/comparators. IEEE rounding is modelled, not verified: '
        'bit-exactness of start/end/eval(0|1) is decided by comparison only.',
   ref='6 / C06'),
}
CLAIMS.update({
 'C02': dict(
   text='Proved (any lawful ordered field; Green over R): each of the three signed_area formulas equals the Green line integral 1/2 INT(x dy - y dx) of '
        'the model\'s own eval/deriv; reversal negates; raise / line-as-quad / line-as-cubic / to_cubic keep the area; splitting the parameter range is '
        'additive for any t0,t1,t2; the affine law with its end-point correction, which telescopes to area(A*P) = det A * area(P) for every list of '
        'closed sub-paths (any mix of segment kinds, singular A included); additivity over sub-paths (area_append) incl. panic propagation of the '
        'segments iterator; element-level reversal of one sub-path negates the area. Regenerated kernel (GenEquiv) + exact-on-grid and metamorphic '
        'correspondence against the compiled crate.',
   note='Not formalised: "= double integral of the winding number" (Green\'s theorem proper, cited). Reversal at element level is proved for a single '
        'sub-path (chain-level for several). IEEE rounding: compared with tolerance only.',
   ref='6 / C02'),
 'C07': dict(
   text='Proved about the hand model of Segments/get_seg/from_path_segments/reverse_subpaths (bit-identical to the crate on every element string of '
        'length <= 5 over a 13-symbol alphabet and random strings to length 40): segments() panics iff the first element is ClosePath; fold law; ClosePath '
        'contributes the closing line iff last != start; get_seg(ix) is exactly what the iterator emits while consuming element ix, for every ix; '
        'segments(from_path_segments(ss)) = ss and #MoveTo = 1 + #discontinuities; reverse_subpaths never panics on a path starting with MoveTo and yields '
        'per sub-path the reversed segments in reverse order (closed: closing line rotated), closedness preserved; reversing twice restores the segment '
        'sequence. All for unbounded lengths and any interleaving.',
   note='Theorems that compare points need lawful point equality (true for any lawful field, e.g. Rat; not for Float: NaN != NaN). Paths not starting with '
        'MoveTo are outside get_seg/reverse theorems (debug_assert in the crate). Model is hand-written: tied by exhaustive differential correspondence.',
   ref='6 / C07'),
 'C12': dict(
   text='Proved for every lawful ordered field: (A*B)*p = A*(B*p), associativity, identity, det multiplicative, A*inverse(A) = inverse(A)*A = id for det != 0, '
        'every pre_*/then_* member equals self*T / T*self (rotate family for arbitrary sin/cos values), scale_about/rotate_about/reflect fix centre/axis, '
        'evaluation and subsegment commute with the map for Line/Quad/Cubic/PathSeg and element lists (segments commute for det != 0), TranslateScale is '
        'identical to its Affine on points, products, inverses, segments and rectangles (any scale sign), transform_rect_bbox contains the image of the whole '
        'rectangle and is tight. Kernel regenerated + GenEquiv; exact-on-grid correspondence; documented products checked on the implementation output.',
   note='sin/cos are uninterpreted (no isometry / angle-addition claim). Affine*Arc/Ellipse/Circle (SVD based) is NOT covered by theorems: see C10/C11 and the '
        'recorded finding on arcs. IEEE rounding compared with tolerance.',
   ref='6 / C12'),
 'C20': dict(
   text='Proved for every lawful ordered field with floor: union = least upper bound, intersect = greatest lower bound (zero area when disjoint, always '
        'non-negative extent), contains half-open, overlaps symmetric and = closed rectangles meet, contains_rect <-> union = container (no hypothesis), '
        'abs/from_points, expand = least integral superset and trunc = greatest integral subset for ALL rectangles of non-negative extent (zero extent '
        'included, after the repair of the zero-extent branch), inset add/sub cancellation, rect - rect, rounding helper inequalities component-wise. '
        'Kernel regenerated + GenEquiv; all 28561 grid rectangles, sampled pairs/points/insets and random doubles compared exactly with the exact model, '
        'and the lattice laws evaluated on the implementation output.',
   note='Nothing about NaN/inf coordinates. Rect::round/floor/ceil only coordinate-wise.',
   ref='6 / C20'),
 'C15': dict(
   text='Exact oracle: on the very double coefficients the real roots are isolated over Q by Sturm sequences; every value returned by solve_quadratic/'
        'solve_cubic/solve_quartic must be backward stable or within 1e-7 of a true root, at most degree values, every separated simple root returned once; '
        'ITP within epsilon of the zero of monotone cubics. The implementation is also compared with the Float instantiation of the hand-written Lean model '
        'of solve_quadratic/solve_cubic/solve_itp. Theorems about the model are being added (quadratic root set, cubic branches).',
   note='Theorems (lawful field / reals with real sqrt, cbrt, atan2, sin, cos laws): solve_quadratic returns exactly the real roots, strictly increasing, '
        'with the linear/constant/all-zero fallbacks; solve_cubic returns exactly the real roots in all three discriminant branches (sound and complete), no '
        'duplicates off the triple root, c3 = 0 delegates to the quadratic; quartic reductions c4 = 0 / c0 = 0; ITP keeps the bracket, uses at most nmax+1 '
        'iterations and returns a point within epsilon of the zero of a monotone (or continuous) function. NOT proved: the general quartic (LDL^T path is not '
        'in the model: oracle only), every float-level claim. Two known findings (negligible leading coefficient).',
   ref='6 / C15'),
})
CLAIMS.update({
 'C01': dict(
   text='Proved (lawful ordered field / R): the per-segment winding contribution of the model (winding_inner for lines, quadratics and cubics: monotone pieces from the '
        'extrema, half-open y rule, side test at the solved parameter) equals the signed crossing count of a rightward ray for points off the curve, '
        'contributions are additive over split pieces, reversing a segment negates it, the path winding is the sum over segments incl. the implicit closing '
        'line, contains = winding != 0, affine maps with det>0 keep it / det<0 negate it, and the rectangle/triangle closed forms. The solver hypothesis '
        'is the C15 root-set theorem. Implementation decided against an exact rational winding oracle (Sturm isolation of the ray crossings) on '
        'polygons, curves, self-intersecting and multi-contour paths, plus correspondence with the exact model.',
   note='Jordan-curve topology is not formalised: "winding number" is the crossing sum. One known finding (degree-raised cubic: root cause in solve_cubic, C15). '
        'Points closer than the stated band to the boundary are excluded as in the property.',
   ref='6 / C01'),
 'C03': dict(
   text='Proved: the three Gauss-Legendre tables of the model (8/16/24 points, regenerated from common.rs on every run and re-proved equal: GenEquivGL) are symmetric, '
        'weights sum to 2 and integrate every monomial up to degree 2n-1 to within 1e-15 (exact rational arithmetic on the decimal literals, decide +kernel); '
        'Line/quad closed forms, arclen additivity identities and subsegment/inv_arclen algebra on the model. Implementation decided against exact arc lengths '
        '(closed form for lines/quads in high precision, 1e-12 adaptive quadrature with a certified bound for cubics), inverse arc length round trip, '
        'perimeter additivity; correspondence with the Float model.',
   note='The error ESTIMATE heuristics of arclen_rec are not proved sufficient (analysis over all cubics is out of reach): decided by oracle comparison. '
        'ln/sqrt/hypot are libm calls, trusted to 1 ulp.',
   ref='6 / C03'),
 'C05': dict(
   text='Proved (lawful ordered field; R with real sqrt/hypot): flattening emits MoveTo/LineTo/ClosePath only, keeps every sub-path start, segment end point and '
        'ClosePath exactly (structure theorem for every element list), the number of pieces of a quadratic follows the parabola-integral count, the vertices lie '
        'on the source curve at increasing parameters, the sagitta bound of one parabola piece, scale covariance of the subdivision count; cubic -> quadratic '
        'budget split. Implementation decided against an exact distance oracle (every chord vs. the exact curve, Bernstein-certified deviation bound <= tolerance) '
        'and compared with the exact/Float models.',
   note='The approx_parabola_integral / inverse are rational approximations: the proved bound is for the model\'s parametrisation, the end-to-end tolerance for all '
        'quadratics is decided by the oracle. glibc hypot is not correctly rounded: near-duplicate end vertices are deduplicated before comparison.',
   ref='6 / C05'),
 'C08': dict(
   text='Proved (lawful ordered field, quadratic-solver spec discharged over R by the C15 theorems): extrema() returns exactly the interior parameters where a '
        'coordinate derivative vanishes, sorted, at most 4; extrema_ranges partitions [0,1]; on each range both coordinates are monotone; bounding_box contains '
        'eval(t) for every t in [0,1] and is tight (each side attained); control box contains the bounding box; union over segments for paths. '
        'Implementation decided against exact rational extrema and bounding boxes; correspondence with the exact model on dyadic grids.',
   note='Tightness for cubics whose derivative has a negligible leading coefficient inherits the C15 known finding (box may miss by the solver error). IEEE compared with tolerance.',
   ref='6 / C08'),
 'C09': dict(
   text='Proved (lawful ordered field / R): Line::nearest is the exact projection (clamped), distance_sq is the squared distance at the returned t, the returned t is in '
        '[0,1]; for quadratics the candidate set (roots of the cubic orthogonality condition + end points) contains the true minimiser, hence nearest is the minimum '
        'over the curve given the solver spec; cubic nearest = minimum over the to_quads pieces with the error budget of C17; PathSeg dispatch. Implementation '
        'decided against an exact distance oracle (Sturm-isolated critical points of the squared distance) and model correspondence.',
   note='One known finding (straight curves: collinear control polygon sends the cubic solver into the negligible-leading-coefficient regime). ToQuadsWithin hypothesis '
        'is discharged by C17 toQuads_error_bound for the model.',
   ref='6 / C09'),
 'C10': dict(
   text='Proved: outline structure of Rect, RoundedRect, Circle, Ellipse, Arc, CircleSegment, Triangle, Line (element kinds, counts, closedness, start points) for every '
        'input; quarter/arc segment control points lie on the tangent lines with the 4/3 tan(theta/4) arm; the radial error of one arc piece is bounded by the '
        'closed-form (1-cos)^3-type bound used to choose n, so every outline point is within tolerance of the ideal circle (circle_within_tolerance) and arcs '
        'alike; ellipse = affine image of the unit circle outline. Implementation decided against exact geometry oracles (distance of outline samples from the '
        'ideal curve, containment/area/perimeter cross checks) and Float-model correspondence.',
   note='sin/cos/tan are specified by their defining identities over R (LawfulTrig hypotheses), not computed. Arc from SVG parameters and Affine*Arc are checked by oracle only.',
   ref='6 / C10'),
 'C11': dict(
   text='Proved (lawful ordered field / R): area, perimeter, winding, contains and bounding_box closed forms of Rect, Triangle, RoundedRect, Circle, CircleSegment, Ellipse '
        'agree with each other and with the definitions (e.g. winding != 0 <-> strictly inside for points off the boundary; rounded-rect corner quadrant test = '
        'distance test; triangle winding sign = orientation; areas scale with det under affine maps; bounding boxes contain the shape). Implementation decided '
        'against exact rational predicates and against its own outline (C10) through the exact winding/area oracles.',
   note='Ellipse perimeter (AGM series) is compared with a high-precision quadrature, not proved. pi is uninterpreted in area formulas.',
   ref='6 / C11'),
 'C13': dict(
   text='Dash iterator modelled state for state (NeedInput/ToStash/Working/FromStash, stash, close-path handling, phase reset) and compared element for element with '
        'the crate in Float arithmetic; oracle: total dash length = pattern coverage of each sub-path arclen, every dash lies on the source, phase resets per sub-path, '
        'closed sub-paths join first and last dash. Kernel definitions used (subsegment, eval) regenerated and re-proved (GenEquiv). Model theorems: dash_impl panics '
        'iff the pattern is empty; further iterator invariants are being proved.',
   note='Order of emitted dashes within a closed sub-path is by design (stash first). inv_arclen is numerical: dash end points compared to 1e-6 of the sub-path length.',
   ref='6 / C13'),
 'C14': dict(
   text='Proved: arclen_rec runs at most 2^21-1 times (cost model tied to the crate\'s work counter by exact correspondence), ITP loops run at most nmax+1 times, '
        'solver/to_quads outputs have bounded length, the SVG parser never panics and its loop consumes a byte per iteration (fuel irrelevant), dash_impl panics iff '
        'the pattern is empty, fit_inside fuel is irrelevant. Decided on the implementation built with add-only work counters (--cfg kurbo_verif): no panic, only '
        'finite numbers, work <= 1e7 on exhaustive degenerate paths x all ops x join/cap/dash combinations and every SVG string to length 3/4 over an 18-symbol alphabet.',
   note='Termination of fit_to_bezpath_rec/opt and NaN-freedom of the stroker rest on floating-point granularity and are decided by budgeted replay only, not by a theorem. '
        'One known finding (fit_to_bezpath_opt unwrap on closed-loop cubics); three defects repaired.',
   ref='6 / C14'),
 'C16': dict(
   text='Proved about the byte-level model of SvgLexer/from_svg (bit-identical to the crate on every string to length 3/4 over 18 symbols and random strings): lexer '
        'index invariants, no panic on any byte string, totality with irrelevant fuel, exact error kinds, the number grammar (getNumber_spec for every valid token, '
        'malformed shapes rejected), one step lemma per command letter incl. relative forms, implicit repetition, smooth-curve reflection. Implementation oracle: '
        'write/parse round trip, relative = absolute, implicit = explicit.',
   note='Decimal -> f64 conversion (parse::<f64>) and arc geometry are outside the theorems (arc flag/number lexing is inside). Full parse-render induction over command lists is not proved; step lemmas + composed instance.',
   ref='6 / C16'),
 'C17': dict(
   text='Proved (lawful ordered field; R for sqrt): to_quads piece count formula and continuity (consecutive pieces share end points, first/last = cubic end points), '
        'the error of each quadratic piece is bounded by the sqrt(3)/36 * |third difference| / n^3 bound (cubic_s_bound tight), hence within accuracy; approx_spline '
        'end points and implied on-curve points, fit_inside soundness, cubics_to_quadratic_splines same length for all. Implementation decided against exact '
        'Hausdorff-type deviation oracles and model correspondence.',
   note='The to_quads bound is for corresponding parameters (upper bound of Hausdorff distance). Float rounding of n (ceil of a power 1/6) compared at tolerance.',
   ref='6 / C17'),
 'C19': dict(
   text='Proved: the table of define_float_funcs! rows extracted from common.rs on every run equals the pinned table (GenEquivFF), every std method is mapped to the libm '
        'function of the same mathematical name and arity for f64 and f32, signum body as specified. Decided on the implementation: the crate is built with std and with '
        'libm (no_std) and both run the whole cross-property corpus; results must agree to 1e-9 relative (structure exactly).',
   note='libm vs. std accuracy (each within a few ulp) is trusted; ill-conditioned outputs (winding on the boundary, radius-scaled arcs) compared at documented tolerances.',
   ref='6 / C19'),
})
PENDING = set()
for _p in PENDING:
    CLAIMS.pop(_p, None)
NA = {'C04': 'stroke outline region: machinery under construction (see DESIGN.md section 10); until it runs clean it is not claimed',
      'C18': 'fit/offset/simplify proximity: machinery under construction (see DESIGN.md section 10); until it runs clean it is not claimed'}
def main():
    ids = ['C%02d' % i for i in range(1, 21)]
    checks = []
    for pid in ids:
        if pid in CLAIMS:
            c = CLAIMS[pid]
            checks.append(dict(property_id=pid, quick_cmd=f'./check {pid} quick', thorough_cmd=f'./check {pid} thorough',
                               evidence_file=f'evidence/{pid}.json', replay_cmd_template=f'./check {pid} --replay {{path}}',
                               engine='lean-proofs+kmodel+kvh',
                               level_claimed=dict(category='proof', text=c['text'], design_ref=c['ref']),
                               level_note=c['note'], technique=TECH))
    na = [dict(property_id=p, reason=NA.get(p, 'not yet built in this round (work in progress; see DESIGN.md section 10)')) for p in ids if p not in CLAIMS]
    m = dict(version=1, setup_cmd='./setup',
             hooks=dict(guard='kurbo_verif', enable='RUSTFLAGS="--cfg kurbo_verif" (set by ./check when it builds the harness for C14)',
                        baseline_off_cmd='cd /repo && cargo test --workspace --no-fail-fast --offline', source_commits=['f08e0b7', '7ed43b3'], add_only=True),
             engines=[dict(name='lean-proofs', path='lean/Proofs', serves_properties=sorted(CLAIMS), kind_free_text='Lean 4 + Mathlib theorems about the executable model'),
                      dict(name='rs2lean', path='tools/rs2lean.py', serves_properties=sorted(CLAIMS), kind_free_text='Rust-subset -> Lean translator; output re-proved equal to the model on every run'),
                      dict(name='kmodel', path='lean/Main.lean', serves_properties=sorted(CLAIMS), kind_free_text='line-protocol driver of the Lean model (exact Rat / Float)'),
                      dict(name='kvh', path='harness', serves_properties=sorted(CLAIMS), kind_free_text='Rust harness calling the crate in /repo in-process')],
             checks=checks, not_applicable=na,
             notes='One entry point: ./check <ID> quick|thorough [--replay file]. See DESIGN.md.')
    json.dump(m, open(os.path.join(VERIF, 'MANIFEST.json'), 'w'), indent=1)
    print('MANIFEST.json:', len(checks), 'checks,', len(na), 'not_applicable')
if __name__ == '__main__':
    main()
