#!/usr/bin/env python3
"""Write MANIFEST.json from the per-property table below (kept in one place so it stays valid)."""
import json, os
VERIF = os.path.dirname(os.path.dirname(os.path.abspath(__file__)))
TECH = 'Lean 4 theorems on an executable model + kernel regenerated from the Rust source (GenEquiv) + differential correspondence'
CLAIMS = {
 'C06': dict(
   text='Proved for every lawful ordered field (all control points, all t0,t1,u, no ordering assumed): subsegment/subdivide/deriv/reverse/raise '
        'identities, eval(0)/eval(1) = end points, start/end are the stored points (for every scalar type, Float included), HasDerivAt over R, '
        'Line->cubic is the smoothstep reparametrisation (monotone). The definitions the theorems are about are regenerated from kurbo/src on '
        'every run and re-proved equal to the model (GenEquiv); the compiled crate is compared with the exact rational model on dyadic grids '
        '(exactly) and on generic doubles (1e-13 relative), and the float clauses (bit-exact end points) are checked on the implementation.',
   note='Trusted: Lean kernel + Mathlib, translator rs2lean.py, harness/driver/comparators. IEEE rounding is modelled, not verified: '
        'bit-exactness of start/end/eval(0|1) is decided by comparison only.',
   ref='6 / C06'),
}
CLAIMS.update({
 'C02': dict(
   text='Proved (any lawful ordered field; Green over R): each of the three signed_area formulas equals the Green line integral 1/2 INT(x dy - y dx) of '
        'the model\'s own eval/deriv; reversal negates; raise / line-as-quad / line-as-cubic / to_cubic keep the area; splitting the parameter range is '
        'additive for any t0,t1,t2; the affine law with its end-point correction, which telescopes to area(A*P) = det A * area(P) for every list of '
        'closed sub-paths (any mix of segment kinds, singular A included); additivity over sub-paths (area_append) incl. panic propagation of the '
        'segments iterator; element-level reversal of one sub-path negates the area. Regenerated kernel (GenEquiv) + exact-on-grid and metamorphic '
        'correspondence against the compiled crate.',
   note='Not formalised: "= double integral of the winding number" (Green\'s theorem proper, cited). Reversal at element level is proved for a single '
        'sub-path (chain-level for several). IEEE rounding: compared with tolerance only.',
   ref='6 / C02'),
 'C07': dict(
   text='Proved about the hand model of Segments/get_seg/from_path_segments/reverse_subpaths (bit-identical to the crate on every element string of '
        'length <= 5 over a 13-symbol alphabet and random strings to length 40): segments() panics iff the first element is ClosePath; fold law; ClosePath '
        'contributes the closing line iff last != start; get_seg(ix) is exactly what the iterator emits while consuming element ix, for every ix; '
        'segments(from_path_segments(ss)) = ss and #MoveTo = 1 + #discontinuities; reverse_subpaths never panics on a path starting with MoveTo and yields '
        'per sub-path the reversed segments in reverse order (closed: closing line rotated), closedness preserved; reversing twice restores the segment '
        'sequence. All for unbounded lengths and any interleaving.',
   note='Theorems that compare points need lawful point equality (true for any lawful field, e.g. Rat; not for Float: NaN != NaN). Paths not starting with '
        'MoveTo are outside get_seg/reverse theorems (debug_assert in the crate). Model is hand-written: tied by exhaustive differential correspondence.',
   ref='6 / C07'),
 'C12': dict(
   text='Proved for every lawful ordered field: (A*B)*p = A*(B*p), associativity, identity, det multiplicative, A*inverse(A) = inverse(A)*A = id for det != 0, '
        'every pre_*/then_* member equals self*T / T*self (rotate family for arbitrary sin/cos values), scale_about/rotate_about/reflect fix centre/axis, '
        'evaluation and subsegment commute with the map for Line/Quad/Cubic/PathSeg and element lists (segments commute for det != 0), TranslateScale is '
        'identical to its Affine on points, products, inverses, segments and rectangles (any scale sign), transform_rect_bbox contains the image of the whole '
        'rectangle and is tight. Kernel regenerated + GenEquiv; exact-on-grid correspondence; documented products checked on the implementation output.',
   note='sin/cos are uninterpreted (no isometry / angle-addition claim). Affine*Arc/Ellipse/Circle (SVD based) is NOT covered by theorems: see C10/C11 and the '
        'recorded finding on arcs. IEEE rounding compared with tolerance.',
   ref='6 / C12'),
 'C20': dict(
   text='Proved for every lawful ordered field with floor: union = least upper bound, intersect = greatest lower bound (zero area when disjoint, always '
        'non-negative extent), contains half-open, overlaps symmetric and = closed rectangles meet, contains_rect <-> union = container (no hypothesis), '
        'abs/from_points, expand = least integral superset and trunc = greatest integral subset for ALL rectangles of non-negative extent (zero extent '
        'included, after the repair of the zero-extent branch), inset add/sub cancellation, rect - rect, rounding helper inequalities component-wise. '
        'Kernel regenerated + GenEquiv; all 28561 grid rectangles, sampled pairs/points/insets and random doubles compared exactly with the exact model, '
        'and the lattice laws evaluated on the implementation output.',
   note='Nothing about NaN/inf coordinates. Rect::round/floor/ceil only coordinate-wise.',
   ref='6 / C20'),
 'C15': dict(
   text='Exact oracle: on the very double coefficients the real roots are isolated over Q by Sturm sequences; every value returned by solve_quadratic/'
        'solve_cubic/solve_quartic must be backward stable or within 1e-7 of a true root, at most degree values, every separated simple root returned once; '
        'ITP within epsilon of the zero of monotone cubics. The implementation is also compared with the Float instantiation of the hand-written Lean model '
        'of solve_quadratic/solve_cubic/solve_itp. Theorems about the model are being added (quadratic root set, cubic branches).',
   note='Theorems (lawful field / reals with real sqrt, cbrt, atan2, sin, cos laws): solve_quadratic returns exactly the real roots, strictly increasing, '
        'with the linear/constant/all-zero fallbacks; solve_cubic returns exactly the real roots in all three discriminant branches (sound and complete), no '
        'duplicates off the triple root, c3 = 0 delegates to the quadratic; quartic reductions c4 = 0 / c0 = 0; ITP keeps the bracket, uses at most nmax+1 '
        'iterations and returns a point within epsilon of the zero of a monotone (or continuous) function. NOT proved: the general quartic (LDL^T path is not '
        'in the model: oracle only), every float-level claim. Three known findings (negligible leading coefficient x2; cancellation in the one-root branch for nearly pure cubics, up to 3e-6 relative); two defects repaired (x^4 + c x + d returned no roots; biquadratics returned non-roots) - the biquadratic branch is modelled and proved to return exactly the real roots.',
   ref='6 / C15'),
})
CLAIMS.update({
 'C04': dict(
   text='Proved about the hand model of the polyline stroker (Kurbo/Stroke.lean: stroke_undashed loop, do_join with the join-skip threshold, bevel/miter/round, the inner-join '
        'pivot, do_line, finish, finish_closed, caps, extend_reversed; compared element by element with the crate on polylines, dashed ones included): never panics on a '
        'polyline source, extend_reversed is the reversal of the backward path, the output is a concatenation of contours MoveTo (LineTo|CurveTo)* ClosePath (round start cap: '
        'ends with the cap arc), one per open / two per closed sub-path, empty iff the source has no segment (all for every Scalar, Float included); over a lawful field with '
        'hypot^2 = x^2+y^2: the offset vector is orthogonal to the tangent with length w/2, do_line edges are parallel at distance w/2, bevel chords stay within w/2, the miter '
        'point lies on both offset lines and within (w/2 limit) when the model\'s test passes, square cap corners at sqrt2 w/2, the inner pivot is the join point on the inner '
        'side, and every VERTEX of the outline of a polyline (bevel/miter joins, butt/square caps) is within the style bound of a source vertex. The property itself (covering and '
        'exclusion of points, all sources incl. curves, all 3x3 styles, dashes) is decided on the implementation by an exact-winding oracle: winding number of the outline over Q '
        '(Sturm-isolated ray crossings) at query points and next to samples of the outline, against the distance to the source.',
   note='NOT proved: anything about winding numbers / coverage, points on edges, round joins and caps (arc accuracy: C10), curved sources (curve fitting: C18). One known finding '
        '(tight curvature: cusps / radius below w/2: spikes and cancellation - the stroker documents that it is not the rigorous parallel sweep); one defect repaired (holes at inner '
        'joins next to short segments). Style bound read as the product w/2 * sqrt2(square) * limit(miter).',
   ref='6 / C04'),
 'C18': dict(
   text='Proved about the translated kernel (regenerated from simplify.rs / offset.rs on every run and re-proved equal: GenEquiv): moment_integrals and CubicOffset::{new,eval,'
        'eval_deriv,cusp_sign} - see the header of lean/Proofs/C18.lean for the exact list (moment integrals = the documented integrals of y dx, x y dx, y^2 dx; additivity under '
        'subdivision; offset point at distance |d| along the normal; cusp_sign = 1 + curvature * d). The property (end points, continuity, two-sided Hausdorff distance <= 2 accuracy for '
        'both fitters on smooth G1 chains, offset distance | dist - |d| | <= 2 accuracy for |d| kappa_max <= 0.8, simplify keeps sub-paths, closedness, end points and corners and stays '
        'within 2 accuracy) is decided on the implementation by a distance oracle with exact nearest-point refinement; moment_integrals also against exact rational integrals and the exact model.',
   note='NOT proved: every accuracy claim - the fitter accepts candidates on an approximate error estimate (20 ray casts); the control skeleton of simplify_bezpath IS modelled (Kurbo/Simplify.lean, fitter abstract; skeleton correspondence with the crate) and proved (Proofs/C18S.lean: sub-path structure, closedness, start/end points, corners are vertices); fit_to_bezpath_rec / fit_to_cubic are not modelled. One defect repaired (simplify smoothed over reversals of direction).',
   ref='6 / C18'),
 'C01': dict(
   text='Proved about the model of winding (Kurbo/Curve.lean), see the header of lean/Proofs/C01.lean for the exact list: the line branch of winding_inner (x-extent early outs included) is the half-open crossing indicator of the leftward ray for EVERY segment and point; on polyline paths pathWinding is the sum of these indicators and, over R, for every list of closed polyline sub-paths (self-intersections, repeated vertices, rows through vertices included) and every point off the path it EQUALS the angle-sum (topological) winding number; reversal negates, inserting a vertex / splitting a line leaves it unchanged, additivity over sub-paths, contains = (winding != 0); for curved segments: winding = sum of winding_inner over the pieces between extrema, and on ONE y-injective piece the quad/cubic branch counts the ray crossing with the half-open rule given the solver specification of C15. The implementation (all path kinds, curved, self-intersecting, multi-contour, rows through vertices/extrema) is decided against an exact rational winding oracle (Sturm isolation of ray crossings) and compared with the exact model; reversal/split/affine metamorphic checks.',
   note='NOT proved: curved paths as a whole (tiling of the monotone pieces, homotopy to a polygon) and the affine law - both decided by the exact oracle only. The solver hypothesis of the one-piece theorems is discharged in Proofs/Glue.lean (windingInner_*_monotone_unconditional). IEEE rounding is outside the theorems. One known finding (degree-raised cubic: root cause in solve_cubic, C15); two defects of the pinned tree repaired (rows through vertices / end points).',
   ref='6 / C01'),
 'C03': dict(
   text='Proved: the three Gauss-Legendre tables of the model (8/16/24 points, regenerated from common.rs on every run and re-proved equal: GenEquivGL) are symmetric, '
        'weights sum to 2 and integrate every monomial up to degree 2n-1 to within 1e-15 (exact rational arithmetic on the decimal literals, decide +kernel); '
        'the quadratic closed form of the model IS the arc length integral over R in its branch (quad_arclen_closed_form, no hypothesis beyond the branch conditions), the kink branch error is the dropped logarithmic term (bounded, attained), the nearly-straight branch on straight segments. Implementation decided against exact arc lengths '
        '(closed form for lines/quads in high precision, 1e-12 adaptive quadrature with a certified bound for cubics), inverse arc length round trip, '
        'perimeter additivity; correspondence with the Float model.',
   note='The error ESTIMATE heuristics of arclen_rec are not proved sufficient (analysis over all cubics is out of reach): decided by oracle comparison. '
        'ln/sqrt/hypot are libm calls, trusted to 1 ulp.',
   ref='6 / C03'),
 'C05': dict(
   text='Proved (header of lean/Proofs/C05.lean): for EVERY scalar type (Float included) flatten emits MoveTo/LineTo/ClosePath only, is one run per input element in order with the state (current point, sub-path start) threaded through, passes move/line/close through unchanged, ends every curve run with LineTo of the STORED end point, emits exactly max 1 ceil(val/2 sqrt tol) lines per quadratic, every vertex is eval t of the source quadratic (of the to_quads(tol/10) piece for cubics); lawful scalars: the parameters are determine_subdiv_t(i/n), degenerate (collinear) quadratics give one line; over R: the parabola-integral maps are strictly monotone, the vertex parameters increase, scaling path and tolerance by k>0 scales the output. The tolerance bound itself (every chord within tolerance of the curve) is decided on the implementation by an exact distance oracle (Bernstein-certified deviation of each chord from the exact curve) and by comparison with the exact/Float models.',
   note="NOT proved: chord-curve distance <= tolerance (the parabola-integral heuristic is 'not absolutely guaranteed' in kurbo's own words): oracle only. glibc hypot is not correctly rounded, so near-duplicate end vertices are deduplicated before the Float comparison. One defect of the pinned tree repaired.",
   ref='6 / C05'),
 'C08': dict(
   text="Proved (header of lean/Proofs/C08.lean; lawful ordered field, containment over R): extrema of a quadratic are exactly the interior zeros of x' or y' (sound, complete, sorted, at most 2); the same for cubics (at most 4) with the quadratic-solver specification, which is discharged over R by the C15 theorem (unconditional corollaries via Proofs/Lemmas/Discharge.lean); extrema_ranges are the consecutive pairs of 0,t1..tn,1 (also for Float); on every range each coordinate is monotone or antitone; bounding_box contains eval t for all t in [0,1] (all three kinds, paths) and is tight (every side attained, unconditional); control box contains every curve point and the bounding box. Implementation decided against exact rational extrema/boxes and compared with the exact model on dyadic grids.",
   note="The lists are weakly increasing (a common root of x' and y' is listed twice, as in the crate). [MoveTo p] alone: bounding box is the zero rect (as in the crate; excluded). Nothing about Float rounding in the theorems: decided by the oracle at tolerance.",
   ref='6 / C08'),
 'C09': dict(
   text='Proved (header of lean/Proofs/C09.lean): Line::nearest returns t in [0,1], distance_sq = |p - eval t|^2 and it is the minimum over [0,1] (all branches, any lawful field); the coefficients QuadBez::nearest hands to solve_cubic are those of 1/4 d/dt|p - q(t)|^2; the result is always one of the evaluated candidates with t in [0,1] (any Scalar, also Float: the unwrap_or default is unreachable); over R with the real sqrt/cbrt/sin/cos/atan2 (C15 solver theorems) the returned squared distance IS the minimum over the quadratic (need_ends rule shown sound); CubicBez::nearest = first best piece of to_quads(a), pieces tile [0,1], and |sqrt distance_sq - dist| <= a, |p - c(t)| <= dist + 2a given the C17 to_quads bound; PathSeg dispatch. Implementation decided against an exact distance oracle (Sturm-isolated critical points) and compared with the model.',
   note='The C17 bound and the C15 solver theorems are combined in Proofs/Glue.lean: cubic_nearest_within_unconditional / pathSeg_nearest_within_unconditional have no to_quads and no solver hypothesis left (R, real function laws, a > 0, below the usize saturation bound). Nothing about Float rounding in the theorems. One known finding (curves that are degree-raised lines up to rounding: the cubic solver is in its negligible-leading-coefficient regime, C15).',
   ref='6 / C09'),
 'C10': dict(
   text='Proved (header of lean/Proofs/C10.lean): for EVERY scalar type the outline structure of line/quad/cubic/rect/triangle (exact reproduction), arcs (exactly n CurveTo, piece k from angle theta_k to theta_k+1, joined end to end, never panics), circles (MoveTo, n CurveTo, ClosePath; returns exactly to its start), rounded rectangles, circle segments and ellipses; over R with real sin/cos/tan/pi: every element end point lies on the ideal ellipse/circle, control arms are arm_len times the derivative, one traversal (accumulated angle = start + sweep, delta_th n = 2 pi), closedness of every closed shape, and the TOLERANCE claim for circles - for every circle and every T>0 every point of the outline is within T of the ideal circle (both branches; exact rational certificates) - and for circular arcs with R/T >= 13997.2; Affine::svd diagonalises. Implementation decided against exact geometry oracles (outline samples vs ideal shape, one traversal by exact winding/area) and Float-model correspondence.',
   note='NOT proved: the tolerance claim for circular arcs with R/T < 13997.2 (margins ~1e-4 relative) and for genuine ellipses (kurbo scales by the larger radius): decided by the oracle. Trigonometric functions are specified (LawfulTrig), not computed. One defect of the pinned tree repaired (circle segment).',
   ref='6 / C10'),
 'C11': dict(
   text="Proved (header of lean/Proofs/C11.lean; lawful ordered field): Rect winding = path winding of its own outline for EVERY point (boundary included, any corner order), half-open tiling theorems (interval, two tiles, m x n grid: every point in exactly one tile), Rect area/bbox/perimeter = those of the outline, tightness; Triangle winding = path winding off the edges for every non-degenerate triangle (both orientations), area/bbox/perimeter; RoundedRect: from_rect normalises, winding = 1 iff the point is in the ideal rounded rectangle (four different radii), bbox tight, area/perimeter formulas; Circle/Ellipse/CircleSegment: winding iff the open ideal set, bbox tight, area/perimeter with symbolic pi. Implementation decided by comparing every closed form with the exact winding/area/bbox oracles run on the shape's own outline (C10).",
   note="Degenerate triangle (zero area): closed form returns 1 where the outline gives 0 - outside the property's quantifier, documented, not flagged. Ellipse perimeter (Kummer series / AGM) is compared with the outline length, not proved; one known finding (it misses the requested accuracy by a few percent above aspect ratio 50, as the property record itself says). Curved shapes are compared with the IDEAL set in the theorems and with the outline by the oracle.",
   ref='6 / C11'),
 'C13': dict(
   text='Dash iterator modelled state for state (NeedInput/ToStash/Working/FromStash, stash, close-path handling, phase reset) and compared element for element with '
        'the crate in Float arithmetic; oracle: total dash length = pattern coverage of each sub-path arclen, every dash lies on the source, phase resets per sub-path, '
        'closed sub-paths join first and last dash. Kernel definitions used (subsegment, eval) regenerated and re-proved (GenEquiv). Model theorems (Proofs/C13.lean, C13B.lean): never panics on a non-empty pattern, phase of the offset, vertices invisible, conservation of length and the first-dash-last / join behaviour end to end for one open and for one or two closed polyline sub-paths.',
   note='Order of emitted dashes within a closed sub-path is by design (stash first). inv_arclen is numerical: dash end points compared to 1e-6 of the sub-path length.',
   ref='6 / C13'),
 'C14': dict(
   text='Proved: arclen_rec runs at most 2^21-1 times (cost model tied to the crate\'s work counter by exact correspondence), ITP loops run at most nmax+1 times, '
        'solver/to_quads outputs have bounded length, the SVG parser never panics and its loop consumes a byte per iteration (fuel irrelevant), dash_impl panics iff '
        'the pattern is empty, fit_inside fuel is irrelevant. Decided on the implementation built with add-only work counters (--cfg kurbo_verif): no panic, only '
        'finite numbers, work <= 1e7 on exhaustive degenerate paths x all ops x join/cap/dash combinations and every SVG string to length 3/4 over an 18-symbol alphabet.',
   note='Termination of fit_to_bezpath_rec/opt and NaN-freedom of the stroker rest on floating-point granularity and are decided by budgeted replay only, not by a theorem. '
        'Six defects repaired (QuadBez::arclen NaN at scale, simplify on empty sub-paths, stroke NaN on double cusps, fit_to_bezpath_opt panic on loops, stroke hang on ulp-long curves, minutes-long fitting at coordinates ~1e6). SVG numerals beyond 1e15 (e.g. 1e999) and arcs with such numerals are treated as outside the supported coordinate range.',
   ref='6 / C14'),
 'C16': dict(
   text='Proved about the byte-level model of SvgLexer/from_svg (bit-identical to the crate on every string to length 3/4 over 18 symbols and random strings): lexer '
        'index invariants, no panic on any byte string, totality with irrelevant fuel, exact error kinds, the number grammar (getNumber_spec for every valid token, '
        'malformed shapes rejected), one step lemma per command letter incl. relative forms, implicit repetition, smooth-curve reflection. Implementation oracle: '
        'write/parse round trip, relative = absolute, implicit = explicit.',
   note='Decimal -> f64 conversion (parse::<f64>) and arc geometry are outside the theorems (arc flag/number lexing is inside). parse_render IS proved by induction over arbitrary command lists (Proofs/C16B.lean: all nine command kinds, relative/absolute, implicit repetition, every valid number spelling); arcs are not in the abstract command type; the writer is covered as a FORMAT only.',
   ref='6 / C16'),
 'C17': dict(
   text='Proved (header of lean/Proofs/C17.lean): to_quads has exactly toQuadsN >= 1 pieces, piece i covers [i/n,(i+1)/n], consecutive pieces share end points which lie on the cubic, first/last = cubic end points (any Scalar, also Float); the error identity quad_i(s) - cubic(t) = -D (t1-t0)^3 s(s-1/2)(s-1), the optimal constant 1/432, hence every piece within a of the cubic when |D|^2 <= 432 n^6 a^2, and over R (powf = rpow, as usize = floor) the computed n satisfies that inequality: unconditional accuracy; fit_inside is sound and fuel-monotone; split_into_n all branches; try_approx_quadratic/approx_spline(_n)/cubics_to_quadratic_splines end points, control-point counts, common order <= 101 and accuracy; QuadSpline::to_quads implied points and continuity. Implementation decided against exact deviation oracles and model correspondence.',
   note='Distances at corresponding parameters (an upper bound of Hausdorff/Frechet distance). No completeness claim (fit_inside may say false for curves inside). Nothing about IEEE rounding in the theorems; the saturating `as usize` case is excluded.',
   ref='6 / C17'),
 'C19': dict(
   text='Proved: the table of define_float_funcs! rows extracted from common.rs on every run equals the pinned table (GenEquivFF), every std method is mapped to the libm '
        'function of the same mathematical name and arity for f64 and f32, signum body as specified. Decided on the implementation: the crate is built with std and with '
        'libm (no_std) and both run the whole cross-property corpus; results must agree to 1e-9 relative (structure exactly).',
   note='libm vs. std accuracy (each within a few ulp) is trusted; ill-conditioned outputs (winding on the boundary, radius-scaled arcs) compared at documented tolerances.',
   ref='6 / C19'),
})
# additions of the continuation round (DESIGN.md section 12): appended to the text / note of the property
ADD_TEXT = {
 'C01': ' Continuation (Proofs/C01P.lean): a solver-free specification rayCross (signed crossings of the closed leftward ray, half-open rule) and, over R, PathSeg.winding s p = rayCross s.eval p 0 1 for EVERY line, quadratic and cubic and every point (no solver hypothesis left), pathWinding = sum of the crossing counts for every element list; split / degree-raise / reverse / same-eval invariance and the vertex/extremum-row rule (winding_join) as corollaries.',
 'C04': ' Continuation (Proofs/C04C.lean): first coverage theorems joining the stroker model with the winding model: for one segment with butt caps the outline is the exact rectangle and pathWinding(outline, q) = 1 iff q projects into the open segment at distance < w/2 (else 0) for every q off the outline; the same for square caps on the extended rectangle; two segments with a bevel join: exact outlines for both turn directions, every point of the open rectangle of either segment has winding >= 1 and winding >= 0 everywhere. Proofs/C04R.lean: the geometry of round joins and caps over R (via C10A): every point of a round join/cap of a stroke of width w at tolerance t is at distance between w/2 and w/2 + t from the join point, start and end points exact, a contour with a round start cap returns to its MoveTo point, the outline of one segment with round caps lies in the band w/2 <= d <= w/2 + t around the segment. The band came out as w/2*(1+1/1000) first: a defect of the crate (round arcs ignored the stroke tolerance), repaired (e67c0c1) and the model/proofs re-done for the repaired code.',
 'C07': ' Continuation (Kurbo/PathMut.lean, Proofs/C07M.lean): the BezPath mutators (push/pop/truncate/extend/move_to/line_to/quad_to/curve_to/close_path/from_vec/apply_affine with their debug assertions) as a state machine tied to the crate on random histories; refinement to list operations, history-independence of segments/get_seg, exact panic conditions.',
 'C10': ' Continuation (Proofs/C10A.lean): arc_within_tolerance - for every circular arc and EVERY tolerance every point of every piece of Arc::append_iter is within T of the circle (before only R/T >= 13997), hence all rounded-rectangle corners and circle-segment arcs.',
 'C12': ' Continuation (Proofs/C12S.lean): the shape-image clause over R - (A*e).pts = A(e.pts) for ellipses and circles (the SVD as a statement about points), and arc_image_param: for det A != 0 and positive radii the point of A*arc at start\'+s*sweep\' is A applied to the point of arc at start+s*sweep for every real s (image traversed in the image direction).',
 'C15': ' Continuation (Kurbo/Quartic.lean, Proofs/C15Q.lean): the general path of solve_quartic (factor_quartic_inner with LDL^T candidates, noise guard, candidate selection, Newton polish, rescaling retries, depressed_cubic_dominant) is now in the model and agrees with the crate bit for bit on every quartic compared; in exact arithmetic with an exact resolvent root it returns exactly the real roots (solveQuartic_general_exact_real), the Newton loop never increases eps_t, and d_2 > 0 means no real root except a possible double root at -l_2.',
 'C16': ' Continuation: BezPath::write_to is now a model function (Kurbo/SvgWrite.lean) compared byte for byte with the crate, round trip theorems restated for it incl. same segments for every path starting with MoveTo (Proofs/C16W.lean); the arc clause is proved over R for Arc.from_svg_arc (Proofs/C16A.lean): the arc starts at the current point, ends at the stated end point, sweep sign = sweep flag, |sweep| > pi iff large-arc (when the radii fit); Proofs/C16G.lean composes it with the arc outline structure and the parser step lemmas: a non-degenerate A command appends a continuous chain of CurveTos from the current point to the stated end point (the pen after the command is `to` in every case), and the text `M .. A ..` parses to exactly those elements.',
}
ADD_NOTE = {
 'C13': ' Continuation: a defect of the dash iterator (ClosePath emitted before the last segment of a closed sub-path inside the first dash) was found, repaired (7127469), the model re-transcribed and every theorem re-proved (three restated for the better behaviour).',
 'C18': ' Continuation: PathSeg::tangents repaired (f4732a0) and re-transcribed; Proofs/C18T.lean: a returned tangent is zero iff all control points coincide.',
 'C14': ' Continuation: bounded work of the AGM loop of Ellipse::perimeter proved (Proofs/C11E.lean, pass counts tied to the crate counter); four NaN stroke inputs found by an independent lattice fuzzer on the unchanged tree, all repaired (4f2d379, 5ce92e3, 7127469, f4732a0).',
 'C03': ' Second-tier translation (GenEquiv2): QuadBez::arclen is re-translated from the source on every run and proved equal to the hand-written model.',
 'C05': ' Second-tier translation (GenEquiv2): approx_parabola_integral, approx_parabola_inv_integral, determine_subdiv_t.',
 'C10': ' Second-tier translation (GenEquiv2): point_on_circle, rotate_pt, sample_ellipse, CircleSegment arcs, Affine::svd, Ellipse::{private_new,center,radii,radii_and_rotation}, RoundedRectRadii::{abs,clamp}.',
 'C11': ' Continuation (Kurbo/EllipsePerimeter.lean, Proofs/C11E.lean): Ellipse::perimeter (Kummer series, remainder bound, AGM loop) is in the model and agrees with the crate bit for bit incl. the AGM pass count; AGM invariants (c\' <= c/2, term\' <= term/2), an explicit pass bound for every accuracy > 0 (bounded work, C14), what the stopping rule guarantees, Kummer value/range scaling and the circle case; the former known high-aspect finding was explained in exact arithmetic (division by the stale a_n instead of the AGM limit) and repaired (93c0fd9); model and theorems re-done for the repaired loop exit. Second-tier translation (GenEquiv2): Triangle::{area,perimeter,bounding_box}, Circle::{area,perimeter,winding}, CircleSegment::{area,perimeter,winding}, Ellipse::{area,winding,bounding_box,radii}, Affine::svd.',
 'C12': ' Second-tier translation (GenEquiv2): Affine::svd, Affine*Ellipse, Affine*Arc. Observation (theorem arc_image_mixed_radii, confirmed on the crate): an Arc whose radii have opposite signs is mapped to an arc traversed the wrong way - radii are magnitudes in the quantifier, documented only.',
 'C15': ' Proofs/C15D.lean discharges the hypothesis the quartic theorems had left (over R depressed_cubic_dominant returns a root - the dominant one - of its cubic in every branch incl. the overflow-guarded ones; an exact root is a fixed point of the Newton refinement): solveQuartic_general_exact_real_unconditional. Float cbrt of the model is now correctly rounded (as the crate\'s).',
 'C17': ' Second-tier translation (GenEquiv2): Line::crossing_point.',
}
PENDING = set()
for _p in PENDING:
    CLAIMS.pop(_p, None)
NA = {}
def main():
    ids = ['C%02d' % i for i in range(1, 21)]
    checks = []
    for pid in ids:
        if pid in CLAIMS:
            c = CLAIMS[pid]
            checks.append(dict(property_id=pid, quick_cmd=f'./check {pid} quick', thorough_cmd=f'./check {pid} thorough',
                               evidence_file=f'evidence/{pid}.json', replay_cmd_template=f'./check {pid} --replay {{path}}',
                               engine='lean-proofs+kmodel+kvh',
                               level_claimed=dict(category='proof', text=c['text'] + ADD_TEXT.get(pid, ''), design_ref=c['ref']),
                               level_note=c['note'] + ADD_NOTE.get(pid, ''), technique=TECH))
    na = [dict(property_id=p, reason=NA.get(p, 'not yet built in this round (work in progress; see DESIGN.md section 10)')) for p in ids if p not in CLAIMS]
    m = dict(version=1, setup_cmd='./setup',
             hooks=dict(guard='kurbo_verif', enable='RUSTFLAGS="--cfg kurbo_verif" (set by ./check when it builds the harness for C14)',
                        baseline_off_cmd='cd /repo && cargo test --workspace --no-fail-fast --offline', source_commits=['f08e0b7', '7ed43b3', '8ca9c41'], add_only=True),
             engines=[dict(name='lean-proofs', path='lean/Proofs', serves_properties=sorted(CLAIMS), kind_free_text='Lean 4 + Mathlib theorems about the executable model'),
                      dict(name='rs2lean', path='tools/rs2lean.py', serves_properties=sorted(CLAIMS), kind_free_text='Rust-subset -> Lean translator; output re-proved equal to the model on every run'),
                      dict(name='kmodel', path='lean/Main.lean', serves_properties=sorted(CLAIMS), kind_free_text='line-protocol driver of the Lean model (exact Rat / Float)'),
                      dict(name='kvh', path='harness', serves_properties=sorted(CLAIMS), kind_free_text='Rust harness calling the crate in /repo in-process')],
             checks=checks, not_applicable=na,
             notes='One entry point: ./check <ID> quick|thorough [--replay file]. See DESIGN.md.')
    json.dump(m, open(os.path.join(VERIF, 'MANIFEST.json'), 'w'), indent=1)
    print('MANIFEST.json:', len(checks), 'checks,', len(na), 'not_applicable')
if __name__ == '__main__':
    main()
