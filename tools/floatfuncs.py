#!/usr/bin/env python3
"""Extract the rows of `define_float_funcs! { ... }` (kurbo/src/common.rs) into a Lean table.
Usage: floatfuncs.py <common.rs> <out.lean> [--suffix _g]"""
import re, sys, os

def main():
    src = open(sys.argv[1]).read()
    out = sys.argv[2]
    suffix = sys.argv[4] if len(sys.argv) > 4 and sys.argv[3] == '--suffix' else ''
    m = re.search(r'define_float_funcs!\s*\{(.*?)\n\}', src, re.S)
    rows = []
    if m:
        for r in re.finditer(r'fn\s+(\w+)\s*\(\s*self\s*((?:,\s*\w+\s*:\s*\w+\s*)*)\)\s*->\s*([^=]+?)\s*=>\s*(\w+)\s*/\s*(\w+)\s*;', m.group(1)):
            args = re.findall(r'(\w+)\s*:\s*(\w+)', r.group(2))
            rows.append((r.group(1), args, r.group(3).strip(), r.group(4), r.group(5)))
    # the hand-written signum of the f64 impl: `if self.is_nan() { f64::NAN } else { 1.0_f64.copysign(self) }`
    sig = re.search(r'impl FloatFuncs for f64 \{.*?fn signum\(self\) -> f64 \{(.*?)\n            \}', src, re.S)
    sig_txt = re.sub(r'\s+', ' ', sig.group(1)).strip() if sig else ''
    lines = []
    if suffix:
        lines += ["import Kurbo.FloatFuncs", "/-! GENERATED from the current kurbo/src/common.rs by tools/floatfuncs.py on every run. DO NOT EDIT. -/"]
    else:
        lines += ["/-! The rows of `define_float_funcs!` (kurbo/src/common.rs): std method name, argument (name, type) list, return type, libm f64 name,",
                  "    libm f32 name – output of tools/floatfuncs.py on the pinned tree (committed). -/"]
    lines += ["namespace Kurbo", ""]
    if not suffix:
        lines += ["/-- identifiers are lists of ASCII codes (string literals do not reduce in the kernel) -/", "structure FloatFuncRow where", "  method : List Nat", "  args : List (List Nat × List Nat)", "  ret : List Nat", "  libm64 : List Nat", "  libm32 : List Nat",
                  "deriving DecidableEq, Repr", ""]
    lines.append(f"def floatFuncRows{suffix} : List FloatFuncRow := [")
    def s(x): return "[" + ", ".join(str(ord(c)) for c in x) + "] /- " + x.replace("-/", "- /") + " -/"
    lines.append(",\n".join("  { method := %s, args := [%s], ret := %s, libm64 := %s, libm32 := %s }" % (s(n), ", ".join("(%s, %s)" % (s(a), s(t)) for a, t in args), s(ret), s(l64), s(l32)) for n, args, ret, l64, l32 in rows))
    lines.append("]\n")
    lines.append(f"def floatSignumBody{suffix} : List Nat := {s(sig_txt)}\n")
    lines.append("end Kurbo")
    txt = "\n".join(lines) + "\n"
    if not os.path.exists(out) or open(out).read() != txt:
        os.makedirs(os.path.dirname(out), exist_ok=True)
        open(out, 'w').write(txt)
    print(f"floatfuncs: {len(rows)} rows -> {out}")

if __name__ == '__main__':
    main()
