#!/usr/bin/env python3
"""Extract the Gauss-Legendre tables of kurbo/src/common.rs as exact rationals (the decimal literals as written).
Usage: gltables.py <common.rs> <out.lean> [--suffix _g]"""
import re, sys, os
from fractions import Fraction

def main():
    src = open(sys.argv[1]).read()
    out = sys.argv[2]
    suffix = sys.argv[4] if len(sys.argv) > 4 and sys.argv[3] == '--suffix' else ''
    tabs = re.findall(r'pub const (GAUSS_LEGENDRE_COEFFS_\w+): &\[\(f64, f64\)\] = &\[(.*?)\];', src, re.S)
    lines = []
    if suffix:
        lines += ["import Kurbo.GLTables", "/-! GENERATED from the current kurbo/src/common.rs by tools/gltables.py on every run. DO NOT EDIT. -/"]
    else:
        lines += ["/-! The Gauss-Legendre tables of kurbo/src/common.rs as exact rationals (each decimal literal as written):",
                  "    output of tools/gltables.py on the pinned tree (committed). `Kurbo/Gen/GLTables.lean` is the same extraction of the",
                  "    current tree; `Proofs/GenEquivGL.lean` proves them equal. Pairs are (weight, abscissa). -/"]
    lines += ["namespace Kurbo", ""]
    names = []
    for name, body in tabs:
        body = re.sub(r'//[^\n]*', '', body)
        pairs = re.findall(r'\(\s*(-?[\d.eE+-]+)\s*,\s*(-?[\d.eE+-]+)\s*\)', body)
        def q(s):
            f = Fraction(s)
            return f"({f.numerator}/{f.denominator} : Rat)" if f.denominator != 1 else f"({f.numerator} : Rat)"
        lean_name = 'gl' + name[len('GAUSS_LEGENDRE_COEFFS_'):].replace('_HALF', 'Half') + suffix
        names.append(lean_name)
        lines.append(f"def {lean_name} : List (Rat × Rat) := [")
        lines.append(",\n".join(f"  ({q(w)}, {q(x)})" for w, x in pairs))
        lines.append("]\n")
    lines.append("end Kurbo")
    txt = "\n".join(lines) + "\n"
    old = open(out).read() if os.path.exists(out) else None
    if old != txt:
        os.makedirs(os.path.dirname(out), exist_ok=True)
        open(out, 'w').write(txt)
    print(f"gltables: {len(names)} tables -> {out}: {' '.join(names)}")

if __name__ == '__main__':
    main()
