#!/bin/bash
# harmlesstest.sh <dir under seeded/>: apply a BEHAVIOUR-PRESERVING refactoring of the crate to /repo, run every quick check, undo.
# Every check must stay quiet (exit 0, no VIOLATION line); evidence of these runs goes to /tmp/seed_evidence.
D=/verif/seeded/$1
exec 9>/tmp/repo.lock; flock 9
[ -z "$(git -C /repo status --porcelain)" ] || { echo repo dirty; exit 2; }
git -C /repo apply $D/patch.diff || { echo apply failed; exit 2; }
export VERIF_EVIDENCE_DIR=/tmp/seed_evidence; mkdir -p $VERIF_EVIDENCE_DIR
: > $D/result.txt
for i in 01 02 03 04 05 06 07 08 09 10 11 12 13 14 15 16 17 18 19 20; do
  out=$(cd /verif && ./check C$i quick 2>&1); rc=$?
  echo "C$i exit $rc $(echo "$out" | grep -c '^VIOLATION') violation line(s); $(echo "$out" | grep 'quick:' | tail -1)" | tee -a $D/result.txt
  echo "$out" | grep '^VIOLATION\|TIE-DEGRADED' | head -5 | tee -a $D/result.txt
done
git -C /repo checkout -- .
# regenerate the model files from the restored tree
cd /verif && python3 tools/rs2lean.py /repo/kurbo/src lean/Kurbo/Gen/Kernel.lean --suffix _g >/dev/null && python3 tools/rs2lean.py /repo/kurbo/src lean/Kurbo/Gen/Kernel2.lean --suffix _g --tier 2 >/dev/null && python3 tools/gen_equiv.py lean/Proofs/GenEquiv.lean >/dev/null && python3 tools/gen_equiv2.py lean/Proofs/GenEquiv2.lean >/dev/null
